//@ item: integer/src/gcd/lehmer.rs :: gcd_ext_in_place
// FUNCTIONAL + RESOURCE contract: the annotations of annot/integer/lehmer/gcd_ext_in_place.rs (unit int_leh_gcd_ext) plus the
// scratch-memory accounting: a chunk of ext_need(|lhs|) = 2 (|lhs| + 1) + gneed(ceil(|lhs| / 2)) Words is enough: the two
// cofactor buffers t0, t1, then (from the rest) every Euclidean division (divisor of <= |lhs| words: gneed(|y| / 2)) and every
// cofactor product q * t1 / x * t1, whose result has at most |lhs| + 1 words (proved by the value part: Q * T1 <= lhs),
// hence a smaller factor of at most ceil(|lhs| / 2) words.  div_rem_unshifted_in_place and mul::add_signed_mul are seen
// through the CONJUNCTION of their functional and resource contracts.
pub fn gcd_ext_in_place(
    lhs: &mut [Word],
    rhs: &mut [Word],
    memory: &mut Memory,
) -> (usize, usize, Sign)
/*@
    requires
        // from the call sites (gcd/mod.rs gcd_ext_in_place <- gcd_ops.rs gcd_ext_large: two `Large` operands, lhs > rhs)
        2 <= old(rhs)@.len() <= old(lhs)@.len(),
        old(lhs)@[old(lhs)@.len() - 1] != 0, old(rhs)@[old(rhs)@.len() - 1] != 0,
        val(old(lhs)@) > val(old(rhs)@),
        // true of every real slice of words (at most isize::MAX bytes); needed by `lhs_len + 1`, `2 * n` of the division
        2 * old(lhs)@.len() + 2 <= usize::MAX,
        3 * (old(lhs)@.len() + 1) + 4 <= SignedWord::MAX,
        old(memory).capw() >= ext_need(old(lhs)@.len() as int),
    ensures
        mem_same(*final(memory), *old(memory)),
        final(lhs)@.len() == old(lhs)@.len(), final(rhs)@.len() == old(rhs)@.len(),
        1 <= ret.0 <= old(rhs)@.len(), ret.1 <= old(lhs)@.len(),
        // C12: g = gcd(lhs, rhs) in rhs[..ret.0], |b| in lhs[..ret.1], sign of b returned:  a*lhs + b*rhs == g for some a
        inplace_gcd_ext_post(val(old(lhs)@), val(old(rhs)@), val(final(rhs)@.subrange(0, ret.0 as int)), ret.2,
            val(final(lhs)@.subrange(0, ret.1 as int))),
@*/
{
    /*@ hide(valn); hide(pw); @*/
    let lhs_len = lhs.len();

    // keep x >= y though the algorithm, and track the source of x and y using the swapped flag
    debug_assert!(cmp_in_place(lhs, rhs).is_ge());
    /*@
    let ghost l0 = val(lhs@); let ghost r0 = val(rhs@);
    let ghost nl = lhs@.len() as int; let ghost nr = rhs@.len() as int;
    proof { lemma_gcdo_top_ge(lhs@); lemma_gcdo_top_ge(rhs@); lemma_valn_bound(lhs@, nl); lemma_valn_bound(rhs@, nr); }
    @*/
    // Use `borrow_mut` to be able to claim back `lhs` and `rhs`
    let (mut x, mut y) = (lhs.borrow_mut(), rhs.borrow_mut());
    let mut swapped = false;
    /*@
    let ghost fl = final(x)@; let ghost fr = final(y)@;
    let ghost mut sx: Seq<Word> = Seq::empty();
    let ghost mut sy: Seq<Word> = Seq::empty();
    let ghost mut s0: int = 1; let ghost mut s1: int = 0;
    @*/

    // the normal way is to have four variables s0, s1, t0, t1 and keep gcd(x, y) = gcd(lhs, rhs),
    // x = s0*lhs - t0*rhs, y = t1*rhs - s1*lhs. Here we simplify it by only tracking the
    // coefficient of rhs, so that x = -t0*rhs mod lhs, y = t1*rhs mod lhs,
    /*@ let ghost cap = memory.capw(); let ghost hn = gneed((nl + 1) / 2);
    proof { lemma_mn_gneed_mono(0, (nl + 1) / 2); lemma_mem_take(memory.start(), memory.end(), (nl + 1) as nat); } @*/
    let (mut t0, mut memory) = memory.allocate_slice_fill::<Word>(lhs_len + 1, 0);
    /*@ proof { assert(memory.capw() == cap - (nl + 1)); lemma_mem_take(memory.start(), memory.end(), (nl + 1) as nat); } @*/
    let (mut t1, mut memory) = memory.allocate_slice_fill::<Word>(lhs_len + 1, 0);
    /*@ let ghost ms = memory.start(); let ghost me = memory.end();
    proof { assert(memory.capw() == cap - 2 * (nl + 1)); } @*/
    let (mut t0_len, mut t1_len) = (1, 1);
    /*@ let ghost t1a = t1@; @*/
    *t1.first_mut().unwrap() = 1;
    /*@
    let ghost _ty: (usize, usize) = (t0_len, t1_len);
    proof {
        assert(final(x)@ + sx =~= final(x)@); assert(final(y)@ + sy =~= final(y)@);
        lemma_leh_pw0();
        lemma_leh_cd_refl(l0, r0);
        lemma_leh_bez_init(l0, r0);
        assert(leh_zeros_from(t0@, 0)); lemma_leh_val_prefix(t0@, 0); lemma_leh_valn0(t0@);
        assert(leh_zeros_from(t1a, 0)); assert(t1@ == t1a.update(0, 1 as Word)); lemma_leh_set_top(t1a, t1@, 0, 1 as Word); lemma_leh_valn0(t1a);
        assert(1 * pw(0) == pw(0)); assert(1 * l0 + 0 * r0 == l0); assert(val(t1@) * l0 == l0) by (nonlinear_arith) requires val(t1@) == 1;
        assert(val(t0@) * r0 == 0) by (nonlinear_arith) requires val(t0@) == 0;
        lemma_leh_pw0();
        assert(leh_zeros_from(t0@, 1));
    }
    @*/

    // loop, reduce x, y until the smaller one (y) fits in a single word
    while y.len() > 1
    /*@
        invariant
            !swapped ==> fl == final(x)@ + sx && fr == final(y)@ + sy,
            swapped ==> fl == final(y)@ + sy && fr == final(x)@ + sx,
            !swapped ==> nl == x@.len() + sx.len() && nr == y@.len() + sy.len(),
            swapped ==> nl == y@.len() + sy.len() && nr == x@.len() + sx.len(),
            2 * nl + 2 <= usize::MAX, 2 <= nr <= nl, lhs_len == nl, l0 < pw(nl), 1 <= r0 < pw(nr), l0 >= 1,
            1 <= x@.len(), y@.len() <= x@.len(),
            x@[x@.len() - 1] != 0, y@.len() >= 1 ==> y@[y@.len() - 1] != 0,
            val(x@) >= val(y@),
            leh_same_cd(val(x@), val(y@), l0, r0),
            t0@.len() == nl + 1, t1@.len() == nl + 1,
            1 <= t0_len <= t1_len, t1_len <= nl + 1,
            leh_zeros_from(t0@, t0_len as int), leh_zeros_from(t1@, t1_len as int), t1@[t1_len - 1] != 0,
            0 <= val(t0@) <= val(t1@),
            l0 == val(t1@) * val(x@) + val(t0@) * val(y@),
            leh_bez(swapped, l0, r0, s0, s1, val(t0@), val(t1@), val(x@), val(y@)),
            3 * (nl + 1) + 4 <= SignedWord::MAX, hn == gneed((nl + 1) / 2),
            memory.start() == ms, memory.end() == me, mem_ok(memory, hn),
        decreases val(x@) + val(y@),
    @*/
    {
        /*@
        let ghost vx = val(x@); let ghost vy = val(y@);
        let ghost nx = x@.len() as int; let ghost ny = y@.len() as int;
        let ghost tt0 = val(t0@); let ghost tt1 = val(t1@);
        let ghost lim = SignedWord::MAX as int;
        let ghost mut gx: int = 0; let ghost mut gy: int = 0;
        proof {
            lemma_gcdo_top_ge(y@); lemma_gcdo_top_ge(x@); lemma_valn_bound(y@, ny); lemma_valn_bound(x@, nx);
            lemma_leh_norm_ge(t1@, t1_len as int);
        }
        @*/
        // Guess the coefficients based on the highest words
        let (a, b, c, d) = if x.len() < MIN_DWORD_GUESS_LEN {
            let (x_hi, y_hi) = highest_word_normalized(x, y);
            /*@ proof { gx = x_hi as int; gy = y_hi as int; } @*/
            lehmer_guess(x_hi, y_hi)
        } else {
            let (x_hi, y_hi) = highest_dword_normalized(x, y);
            /*@ proof { gx = x_hi as int; gy = y_hi as int; } @*/
            lehmer_guess_dword(x_hi, y_hi)
        };

        if b == 0 {
            // The guess has failed, do a euclidean step (x, y) = (y, x % y)
            /*@ let ghost y0 = y@; @*/
            let (shift, fast_div_top) = div::normalize(y);
            /*@ let ghost pp = pow2(shift as int); let ghost x0 = x@; let ghost y1 = y@;
            proof {
                lemma_sh_pow2_pos(shift as int);
                // scratch: this division needs div_need(|x|, |y|) <= gneed(|y| / 2) <= gneed(ceil(|lhs| / 2))
                assert(ny <= nl);
                lemma_mn_gneed_mono(imin(ny / 2, nx - ny), (nl + 1) / 2);
            } @*/
            let q_top = div::div_rem_unshifted_in_place(x, y, shift, fast_div_top, &mut memory);
            /*@
            let ghost x1 = x@; let ghost fx = final(x)@;
            let ghost qlo0 = x1.subrange(ny, nx);
            let ghost qq = val(qlo0) + (q_top as int) * pw(nx - ny);
            let ghost rr = val(x1.subrange(0, ny));
            proof { lemma_valn_bound(x1.subrange(0, ny), ny); lemma_valn_bound(qlo0, nx - ny); }
            let ghost r1 = lemma_leh_euclid_norm(vx, vy, pp, qq, rr);
            @*/
            let (mut r, mut q_lo) = x.split_at_mut(y.len());
            /*@ let ghost ra = r@; let ghost fra = final(r)@; let ghost fqa = final(q_lo)@;
            proof { assert(ra =~= x1.subrange(0, ny)); assert(q_lo@ =~= qlo0); assert(fx == fra + fqa); } @*/
            debug_assert_zero!(shift::shr_in_place(y, shift));
            /*@ proof {
                assert(0 * pow2(WORD_BITS - shift) == 0);
            } @*/
            debug_assert_zero!(shift::shr_in_place(r, shift));
            /*@ proof {
                assert(0 * pow2(WORD_BITS - shift) == 0);
            } @*/
            /*@ let ghost rb = r@; let ghost frb = final(r)@;
            proof { assert(val(y@) == vy); assert(val(rb) == r1); lemma_leh_top_keeps(y0, y@); assert(frb == fra); } @*/
            r = trim_leading_zeros(r);
            /*@
            let ghost rest2 = rb.subrange(r@.len() as int, rb.len() as int);
            proof {
                assert(frb == final(r)@ + rest2);
                // quotient: vx >= vy  ==>  qq >= 1
                if qq < 1 { assert(qq * vy <= 0) by (nonlinear_arith) requires qq <= 0, vy >= 1; }
                lemma_leh_k_euclid(l0, tt0, tt1, vx, vy, qq, r1);
                if q_top > 0 {
                    lemma_pw_pos(nx - ny);
                    assert((q_top as int) * pw(nx - ny) >= pw(nx - ny)) by (nonlinear_arith) requires q_top as int >= 1, pw(nx - ny) >= 1;
                    lemma_leh_qt_len(qq, tt1, l0, nx - ny, t1_len as int, nl);
                } else {
                    assert((q_top as int) * pw(nx - ny) == 0) by (nonlinear_arith) requires q_top as int == 0;
                }
            }
            @*/
            if q_top == 0 {
                q_lo = trim_leading_zeros(q_lo);
            }
            /*@
            let ghost m = q_lo@.len() as int;
            let ghost qlo = q_lo@; let ghost fqb = final(q_lo)@;
            proof {
                assert(fqa == fqb + qlo0.subrange(m, nx - ny));
                assert(qlo =~= qlo0.subrange(0, m));
                assert(val(qlo) + (q_top as int) * pw(nx - ny) == qq);
                if q_top == 0 {
                    if m == 0 { lemma_leh_val_empty(qlo); }
                    lemma_gcdo_top_ge(qlo);
                    lemma_leh_qt_len(qq, tt1, l0, m - 1, t1_len as int, nl);
                } else {
                    assert(m == nx - ny);
                }
                // val(qlo) < B^m, qq < (q_top + 1) * B^m
                lemma_valn_bound(qlo, m);
                assert(qq < (q_top as int + 1) * pw(m)) by {
                    if q_top == 0 { assert((q_top as int + 1) * pw(m) == pw(m)) by (nonlinear_arith) requires q_top as int == 0; }
                    else { assert((q_top as int + 1) * pw(m) == (q_top as int) * pw(m) + pw(m)) by (nonlinear_arith); }
                }
            }
            @*/

            // update coefficient t0 += q*t1
            let qt1_len = q_lo.len() + t1_len;
            /*@
            let ghost e = qt1_len as int;
            let ghost t0a = t0@;
            proof {
                assert(leh_zeros_from(t0a, e));
                lemma_leh_val_prefix(t0a, e);
                lemma_leh_val_prefix(t1@, t1_len as int);
                // scratch: q_lo.len() + t1_len <= |lhs| + 1, so the smaller factor has at most ceil(|lhs| / 2) words
                assert(e <= nl + 1);
                lemma_mn_gneed_mono(imin(m, t1_len as int), (nl + 1) / 2);
            }
            @*/
            let mut t_carry = mul::add_signed_mul(
                &mut t0[..qt1_len],
                Sign::Positive,
                q_lo,
                &t1[..t1_len],
                &mut memory,
            ) as Word;
            /*@
            let ghost t0b = t0@;
            let ghost c1: int = choose|c1: int| -1 <= c1 <= 1 && val(t0b.subrange(0, e)) + #[trigger] (c1 * pw(e)) == tt0 + 1 * (val(qlo) * tt1);
            proof {
                assert(sgn(Sign::Positive) == 1);
                lemma_valn_bound(t0b.subrange(0, e), e);
                assert(val(qlo) * tt1 >= 0) by (nonlinear_arith) requires val(qlo) >= 0, tt1 >= 0;
                lemma_leh_carry_nonneg(val(t0b.subrange(0, e)), c1, e, tt0 + val(qlo) * tt1);
                assert(t_carry as int == c1);
                lemma_valn_ext(t0b, t0b.subrange(0, e), e);
                assert(valn(t0b, e) + c1 * pw(e) == tt0 + val(qlo) * tt1);
            }
            let ghost mut c2: int = 0;
            @*/
            if q_top > 0 {
                t_carry += mul::add_mul_word_in_place(
                    &mut t0[q_lo.len()..qt1_len.min(lhs_len)],
                    q_top,
                    &t1[..t1_len],
                );
                /*@ #[after_rhs] proof {
                    // no overflow in `t_carry += ..`: the two carries together are at most q_top
                    c2 = __rhs0 as int;
                    let t0m = t0@;
                    assert(t1@.subrange(0, t1_len as int).len() == t1_len);
                    lemma_leh_window(t0b, t0m, m, e, c2, (q_top as int) * tt1);
                    assert(((q_top as int) * tt1) * pw(m) == ((q_top as int) * pw(m)) * tt1) by (nonlinear_arith);
                    assert(qq * tt1 == val(qlo) * tt1 + ((q_top as int) * pw(m)) * tt1) by (nonlinear_arith)
                        requires qq == val(qlo) + (q_top as int) * pw(m);
                    assert((c1 + c2) * pw(e) == c1 * pw(e) + c2 * pw(e)) by (nonlinear_arith);
                    lemma_valn_bound(t0m, e);
                    lemma_valn_bound(t1@, t1_len as int);
                    lemma_leh_tcarry(valn(t0m, e), c1 + c2, e, tt0, tt1, qq, q_top as int, m, t1_len as int);
                } @*/
            }
            /*@
            let ghost t0c = t0@;
            let ghost tn = tt0 + qq * tt1;
            proof {
                if q_top > 0 {
                    lemma_leh_window(t0b, t0c, m, e, c2, (q_top as int) * tt1);
                    assert(((q_top as int) * tt1) * pw(m) == ((q_top as int) * pw(m)) * tt1) by (nonlinear_arith);
                    assert(qq * tt1 == val(qlo) * tt1 + ((q_top as int) * pw(m)) * tt1) by (nonlinear_arith)
                        requires qq == val(qlo) + (q_top as int) * pw(m);
                    assert((c1 + c2) * pw(e) == c1 * pw(e) + c2 * pw(e)) by (nonlinear_arith);
                } else {
                    assert(qq * tt1 == val(qlo) * tt1) by (nonlinear_arith) requires qq == val(qlo);
                    assert((c1 + c2) * pw(e) == c1 * pw(e)) by (nonlinear_arith) requires c2 == 0;
                    assert(t0c == t0b);
                }
                assert(t_carry as int == c1 + c2);
                assert(valn(t0c, e) + (t_carry as int) * pw(e) == tn);
                assert(forall|j: int| e <= j < t0c.len() ==> t0c[j] == t0a[j]);
                assert(leh_zeros_from(t0c, e));
                lemma_valn_bound(t0c, e);
            }
            @*/
            if t_carry > 0 {
                /*@ proof { lemma_leh_carry_room(valn(t0c, e), t_carry as int, e, tn, nl); } @*/
                t0[qt1_len] = t_carry;
                t0_len = qt1_len + 1;
                /*@ proof { lemma_leh_set_top(t0c, t0@, e, t_carry); } @*/
            } else {
                t0_len = locate_top_word_plus_one(&t0[..qt1_len]);
                /*@ proof {
                    assert((t_carry as int) * pw(e) == 0) by (nonlinear_arith) requires t_carry as int == 0;
                    lemma_leh_val_prefix(t0c, e);
                    assert(leh_zeros_from(t0c, t0_len as int)) by {
                        assert forall|j: int| t0_len <= j < t0c.len() implies #[trigger] t0c[j] == 0 by {
                            if j < e { assert(t0c.subrange(0, e)[j] == 0); }
                        }
                    }
                    if t0_len == 0 { lemma_leh_val_prefix(t0c, 0); lemma_leh_valn0(t0c); }
                    assert(t0c[t0_len - 1] == t0c.subrange(0, e)[t0_len - 1]);
                } @*/
            }
            /*@ proof {
                assert(val(t0@) == tn);
                assert(t0@[t0_len - 1] != 0);
                // lengths: old t1 (normalized, value <= tn) is not longer than the new t0; the new t0 fits nl words
                lemma_leh_norm_ge(t0@, t0_len as int);
                lemma_leh_norm_ge(t1@, t1_len as int);
                lemma_valn_bound(t0@, t0_len as int); lemma_leh_val_prefix(t0@, t0_len as int);
                lemma_leh_len_order(t1@, t1_len as int, t0@, t0_len as int);
                lemma_leh_norm_len(t0@, t0_len as int, nl);
                lemma_leh_bez_euclid(swapped, l0, r0, s0, s1, tt0, tt1, vx, vy, qq, r1);
                lemma_leh_cd_euclid(vx, vy, qq, r1, l0, r0);
            } @*/

            // swap: (x, y) = (y, r)
            x = mem::replace(&mut y, r);
            mem::swap(&mut t0, &mut t1);
            mem::swap(&mut t0_len, &mut t1_len);
            /*@ proof {
                assert(fqb == qlo);
                assert(fqa =~= qlo0);
                assert(fx == final(y)@ + (rest2 + qlo0)) by { assert((final(y)@ + rest2) + qlo0 =~= final(y)@ + (rest2 + qlo0)); }
                let t = sx; sx = sy; sy = (rest2 + qlo0) + t;
                assert(fx + t =~= final(y)@ + sy);
                let u = s0; s0 = s1; s1 = u + qq * s1;
                if y@.len() == 0 { lemma_leh_val_empty(y@); }
            } @*/
            swapped = !swapped;
        } else {
            // The lehmer guess succeeded, use the coefficients to update x, y and t0, t1
            /*@
            let ghost (ai, bi, ci, di) = (a as int, b as int, c as int, d as int);
            let ghost kk = choose|k: int| leh_top(vx, vy, gx, gy, k);
            let ghost xn = ai * vx - bi * vy; let ghost yn = di * vy - ci * vx;
            let ghost u0 = ai * tt0 + bi * tt1; let ghost u1 = ci * tt0 + di * tt1;
            let ghost s0n = ai * s0 + bi * s1; let ghost s1n = ci * s0 + di * s1;
            proof {
                lemma_leh_guess_len(gx, gy, ai, bi, ci, di, lim);
                assert(nx - ny <= 1);
                lemma_leh_apply(vx, vy, gx, gy, kk, ai, bi, ci, di, lim);
                lemma_leh_cd_unimod(vx, vy, ai, bi, ci, di, xn, yn, l0, r0);
                assert(xn + yn < vx + vy) by {
                    assert(di * xn >= xn) by (nonlinear_arith) requires di >= 1, xn >= 0;
                    assert(bi * yn >= yn) by (nonlinear_arith) requires bi >= 1, yn >= 0;
                }
                lemma_leh_k_lehmer(l0, tt0, tt1, vx, vy, xn, yn, ai, bi, ci, di);
                lemma_leh_bez_lehmer(swapped, l0, r0, s0, s1, tt0, tt1, vx, vy, ai, bi, ci, di);
                lemma_leh_cof_order(vx, vy, gx, gy, kk, ai, bi, ci, di, tt0, tt1);
            }
            @*/
            lehmer_step(x, y, a, b, c, d);
            /*@
            let ghost xa = x@; let ghost fx = final(x)@;
            let ghost ya = y@; let ghost fy = final(y)@;
            @*/
            x = trim_leading_zeros(x);
            y = trim_leading_zeros(y);
            /*@ proof {
                let rx = xa.subrange(x@.len() as int, xa.len() as int);
                let ry = ya.subrange(y@.len() as int, ya.len() as int);
                assert(fx + sx =~= final(x)@ + (rx + sx));
                assert(fy + sy =~= final(y)@ + (ry + sy));
                sx = rx + sx; sy = ry + sy;
                if x@.len() == 0 { lemma_leh_val_empty(x@); }
                if y@.len() == 0 { lemma_leh_val_empty(y@); }
            } @*/

            // (t0, t1) = (a*t0 - b*t1, d*t1 - c*t0), here we do unsigned operations.
            let tmax_len = t0_len.max(t1_len);
            /*@
            let ghost tm = tmax_len as int;
            let ghost t0a = t0@; let ghost t1a = t1@;
            proof {
                assert(leh_zeros_from(t0a, tm)); assert(leh_zeros_from(t1a, tm));
                lemma_leh_val_prefix(t0a, tm); lemma_leh_val_prefix(t1a, tm);
            }
            @*/
            let (t0_carry, t1_carry) = lehmer_ext_step(t0, t1, tmax_len, a, b, c, d);
            /*@
            let ghost t0b = t0@; let ghost t1b = t1@;
            proof {
                assert(valn(t0b, tm) + (t0_carry as int) * pw(tm) == u0);
                assert(valn(t1b, tm) + (t1_carry as int) * pw(tm) == u1);
                assert(leh_zeros_from(t0b, tm)); assert(leh_zeros_from(t1b, tm));
                lemma_valn_bound(t0b, tm); lemma_valn_bound(t1b, tm);
            }
            @*/
            if t0_carry > 0 {
                /*@ proof { lemma_leh_carry_room(valn(t0b, tm), t0_carry as int, tm, u0, nl); } @*/
                t0[tmax_len] = t0_carry;
                t0_len = tmax_len + 1;
                /*@ proof { lemma_leh_set_top(t0b, t0@, tm, t0_carry); } @*/
            } else {
                t0_len = locate_top_word_plus_one(&t0[..tmax_len]);
                /*@ proof {
                    assert((t0_carry as int) * pw(tm) == 0) by (nonlinear_arith) requires t0_carry as int == 0;
                    lemma_leh_val_prefix(t0b, tm);
                    assert(leh_zeros_from(t0b, t0_len as int)) by {
                        assert forall|j: int| t0_len <= j < t0b.len() implies #[trigger] t0b[j] == 0 by {
                            if j < tm { assert(t0b.subrange(0, tm)[j] == 0); }
                        }
                    }
                    if t0_len == 0 { lemma_leh_val_prefix(t0b, 0); lemma_leh_valn0(t0b); }
                    assert(t0b[t0_len - 1] == t0b.subrange(0, tm)[t0_len - 1]);
                } @*/
            }
            if t1_carry > 0 {
                /*@ proof { lemma_leh_carry_room(valn(t1b, tm), t1_carry as int, tm, u1, nl); } @*/
                t1[tmax_len] = t1_carry;
                t1_len = tmax_len + 1;
                /*@ proof { lemma_leh_set_top(t1b, t1@, tm, t1_carry); } @*/
            } else {
                t1_len = locate_top_word_plus_one(&t1[..tmax_len]);
                /*@ proof {
                    assert((t1_carry as int) * pw(tm) == 0) by (nonlinear_arith) requires t1_carry as int == 0;
                    lemma_leh_val_prefix(t1b, tm);
                    assert(leh_zeros_from(t1b, t1_len as int)) by {
                        assert forall|j: int| t1_len <= j < t1b.len() implies #[trigger] t1b[j] == 0 by {
                            if j < tm { assert(t1b.subrange(0, tm)[j] == 0); }
                        }
                    }
                    if t1_len == 0 { lemma_leh_val_prefix(t1b, 0); lemma_leh_valn0(t1b); }
                    assert(t1b[t1_len - 1] == t1b.subrange(0, tm)[t1_len - 1]);
                } @*/
            }
            /*@ proof {
                assert(val(t0@) == u0 && val(t1@) == u1);
                assert(t0@[t0_len - 1] != 0 && t1@[t1_len - 1] != 0);
                lemma_leh_norm_ge(t0@, t0_len as int); lemma_leh_norm_ge(t1@, t1_len as int);
                lemma_leh_val_prefix(t0@, t0_len as int); lemma_leh_val_prefix(t1@, t1_len as int);
                lemma_valn_bound(t0@, t0_len as int); lemma_valn_bound(t1@, t1_len as int);
                lemma_leh_norm_len(t0@, t0_len as int, nl); lemma_leh_norm_len(t1@, t1_len as int, nl);
                s0 = s0n; s1 = s1n;
                if xn > yn { lemma_leh_len_order(t0@, t0_len as int, t1@, t1_len as int); }
                else { lemma_leh_len_order(t1@, t1_len as int, t0@, t0_len as int); }
            } @*/

            // make sure x > y
            if cmp_in_place(x, y).is_le() {
                mem::swap(&mut x, &mut y);
                mem::swap(&mut t0, &mut t1);
                mem::swap(&mut t0_len, &mut t1_len);
                swapped = !swapped;
                /*@ proof {
                    let t = sx; sx = sy; sy = t;
                    lemma_leh_cd_swap(xn, yn, l0, r0);
                    lemma_leh_bez_swap(!swapped, l0, r0, s0n, s1n, u0, u1, xn, yn);
                    s0 = s1n; s1 = s0n;
                } @*/
            }
            /*@ proof { lemma_leh_len_le(x@, y@); } @*/
        }
    }

    /*@
    let ghost vx = val(x@); let ghost vy = val(y@); let ghost xe = x@; let ghost ye = y@;
    let ghost nx = x@.len() as int;
    let ghost tt0 = val(t0@); let ghost tt1 = val(t1@);
    let ghost sw0 = swapped;
    proof {
        lemma_gcdo_top_ge(x@); lemma_valn_bound(x@, nx);
        lemma_leh_norm_ge(t1@, t1_len as int);
        lemma_leh_val_prefix(t0@, t0_len as int); lemma_leh_val_prefix(t1@, t1_len as int);
        lemma_valn_bound(t1@, t1_len as int);
    }
    @*/
    // If y is zero, then the gcd result is in x now.
    // Note that y.len() == 0 is equivalent to y == 0, which is guaranteed by trim_leading_zeros.
    if y.is_empty() {
        let x_len = x.len();
        /*@ proof {
            lemma_leh_val_empty(ye);
            assert(tt0 * vy == 0) by (nonlinear_arith) requires vy == 0;
            assert(tt1 * vx >= tt1) by (nonlinear_arith) requires tt1 >= 1, vx >= 1;
            lemma_leh_norm_len(t1@, t1_len as int, nl);
            lemma_leh_ext_fin0(swapped, l0, r0, s0, s1, tt0, tt1, vx);
            lemma_leh_g_len(xe, vx, r0, nr);
            if swapped { assert(rhs@ =~= xe + sx); assert(lhs@ =~= ye + sy); }
            else { assert(lhs@ =~= xe + sx); assert(rhs@ =~= ye + sy); }
        } @*/
        // We are not using the borrwed `x` / `y` anymore, so we can
        // claim back the original `lhs` / `rhs`.
        if !swapped {
            rhs[..x_len].copy_from_slice(&lhs[..x_len]);
        }
        /*@ proof { assert(rhs@.subrange(0, x_len as int) =~= xe); } @*/
        lhs[..t0_len].copy_from_slice(&t0[..t0_len]);
        /*@ proof { assert(lhs@.subrange(0, t0_len as int) =~= t0@.subrange(0, t0_len as int)); } @*/
        let sign = if swapped {
            Sign::Positive
        } else {
            Sign::Negative
        };
        return (x_len, t0_len, sign);
    }

    // before forwarding to single word gcd, first reduce x by y:
    // x_word = x % y; x /= y
    let y_word = *y.first().unwrap();
    /*@ proof { lemma_val1(ye); } @*/
    let x_word = div::div_by_word_in_place(x, y_word);
    /*@
    let ghost q = val(x@); let ghost xw = x_word as int; let ghost yw = y_word as int;
    let ghost t0a = t0@;
    let ghost tp = tt0 + q * tt1;
    proof {
        lemma_valn_bound(x@, nx);
        if q < 1 { assert(q * yw <= 0) by (nonlinear_arith) requires q <= 0, yw >= 1; }
        lemma_leh_k_euclid(l0, tt0, tt1, vx, vy, q, xw);
        assert(vx * tt1 <= l0) by {
            assert(tt1 * vx == vx * tt1) by (nonlinear_arith);
            assert(tt0 * vy >= 0) by (nonlinear_arith) requires tt0 >= 0, vy >= 0;
        }
        lemma_leh_qt_len(vx, tt1, l0, nx - 1, t1_len as int, nl);
        lemma_leh_tail_fits(tt0, tt1, q, nx, t1_len as int);
        assert(leh_zeros_from(t0a, nx + t1_len));
        lemma_leh_val_prefix(t0a, nx + t1_len);
        // scratch: x.len() + t1_len <= |lhs| + 1
        lemma_mn_gneed_mono(imin(nx, t1_len as int), (nl + 1) / 2);
    }
    @*/
    t0_len = x.len() + t1_len;
    debug_assert_zero!(mul::add_signed_mul(
        &mut t0[..t0_len],
        Sign::Positive,
        x,
        &t1[..t1_len],
        &mut memory,
    ));
    /*@ proof {
        assert(sgn(Sign::Positive) == 1);
        lemma_valn_bound(t0@.subrange(0, t0_len as int), t0_len as int);
        lemma_leh_carry_is_zero(val(t0@.subrange(0, t0_len as int)), __zchk3 as int, t0_len as int, tp);
    } @*/
    /*@
    let ghost t0b = t0@; let ghost e2 = t0_len as int;
    proof {
        assert((__zchk3 as int) * pw(e2) == 0) by (nonlinear_arith) requires __zchk3 as int == 0;
        assert(forall|j: int| e2 <= j < t0b.len() ==> t0b[j] == t0a[j]);
        assert(leh_zeros_from(t0b, e2));
        lemma_leh_val_prefix(t0b, e2);
        assert(val(t0b) == tp);
    }
    @*/
    t0_len = locate_top_word_plus_one(&t0[..t0_len]);
    /*@ proof {
        assert(leh_zeros_from(t0b, t0_len as int)) by {
            assert forall|j: int| t0_len <= j < t0b.len() implies #[trigger] t0b[j] == 0 by {
                if j < e2 { assert(t0b.subrange(0, e2)[j] == 0); }
            }
        }
        if t0_len == 0 { lemma_leh_val_prefix(t0b, 0); lemma_leh_valn0(t0b); }
        assert(t0b[t0_len - 1] == t0b.subrange(0, e2)[t0_len - 1]);
        lemma_leh_norm_len(t0b, t0_len as int, nl);
        lemma_leh_norm_len(t1@, t1_len as int, nl);
        lemma_leh_val_prefix(t0b, t0_len as int);
        lemma_leh_bez_reduce(swapped, l0, r0, s0, s1, tt0, tt1, vx, vy, q, xw);
    } @*/

    // forward to single word gcd
    let (g_word, cx, cy) = x_word.gcd_ext(y_word);
    swapped ^= (cx < 0) || (cx == 0 && cy > 0);
    /*@
    let ghost cxi = cx as int; let ghost cyi = cy as int;
    let ghost acx: int = if cxi >= 0 { cxi } else { -cxi }; let ghost acy: int = if cyi >= 0 { cyi } else { -cyi };
    proof {
        assert(swapped == (sw0 != ((cx < 0) || (cx == 0 && cy > 0))));
        lemma_leh_ext_fin1(sw0, l0, r0, s0 + q * s1, s1, tp, tt1, xw, yw, vx, q, g_word as int, cxi, cyi, acx, acy);
    }
    @*/

    // let lhs stores |b| = |cx| * t0 + |cy| * t1
    // by now, number of words in |b| should be close to lhs

    // We are not using the borrwed `x` / `y` anymore, so we can
    // claim back the original `lhs` / `rhs`.
    *rhs.first_mut().unwrap() = g_word;
    lhs.fill(0);
    /*@ proof {
        assert(leh_zeros_from(lhs@, 0)); lemma_leh_val_prefix(lhs@, 0); lemma_leh_valn0(lhs@);
        lemma_val1(rhs@.subrange(0, 1));
    } @*/

    let (cx, cy) = (cx.unsigned_abs(), cy.unsigned_abs());
    debug_assert_zero!(mul::add_mul_word_in_place(lhs, cx, &t0[..t0_len]));
    /*@ proof {
        lemma_valn_bound(lhs@, nl);
        lemma_leh_carry_is_zero(val(lhs@), __zchk4 as int, nl, acx * tp);
    } @*/
    /*@ proof { assert((__zchk4 as int) * pw(nl) == 0) by (nonlinear_arith) requires __zchk4 as int == 0; } @*/
    debug_assert_zero!(mul::add_mul_word_in_place(lhs, cy, &t1[..t1_len]));
    /*@ proof {
        lemma_valn_bound(lhs@, nl);
        lemma_leh_carry_is_zero(val(lhs@), __zchk5 as int, nl, acx * tp + acy * tt1);
    } @*/
    /*@ proof { assert((__zchk5 as int) * pw(nl) == 0) by (nonlinear_arith) requires __zchk5 as int == 0; } @*/
    let sign = if swapped {
        Sign::Positive
    } else {
        Sign::Negative
    };
    (1, locate_top_word_plus_one(lhs), sign)
    /*@ proof {
        assert(leh_zeros_from(lhs@, ret.1 as int));
        lemma_leh_val_prefix(lhs@, ret.1 as int);
    } @*/
}
