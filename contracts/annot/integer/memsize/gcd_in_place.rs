//@ item: integer/src/gcd/lehmer.rs :: gcd_in_place
// FUNCTIONAL + RESOURCE contract: the annotations of annot/integer/lehmer/gcd_in_place.rs (proof of the gcd, unit int_leh_gcd)
// plus the scratch-memory accounting: a chunk offering gneed(|rhs| / 2) Words is enough for EVERY Euclidean step of the
// loop (each divides at most |lhs| words by a divisor y of at most |rhs| words; all products of that division have a
// smaller factor of at most |y| / 2 words; gneed is monotone).  The value proof is needed here because the loop is
// value-driven (termination, preconditions of lehmer_step / the division); div_rem_unshifted_in_place is seen through the
// CONJUNCTION of its functional and its resource contract (//@@ SIG .. and=..).
pub(crate) fn gcd_in_place(
    lhs: &mut [Word],
    rhs: &mut [Word],
    memory: &mut Memory,
) -> (usize, bool)
/*@
    requires
        // from the call sites (gcd/mod.rs gcd_in_place <- gcd_ops.rs gcd_large: two `Large` operands, lhs > rhs)
        2 <= old(rhs)@.len() <= old(lhs)@.len(),
        old(lhs)@[old(lhs)@.len() - 1] != 0, old(rhs)@[old(rhs)@.len() - 1] != 0,
        val(old(lhs)@) > val(old(rhs)@),
        // true of every real slice of words (at most isize::MAX bytes); needed by the division's `2 * n`
        2 * old(lhs)@.len() <= usize::MAX,
        3 * old(rhs)@.len() + 4 <= SignedWord::MAX,
        mem_ok(*old(memory), gneed(old(rhs)@.len() as int / 2)),
    ensures
        mem_same(*final(memory), *old(memory)),
        final(lhs)@.len() == old(lhs)@.len(), final(rhs)@.len() == old(rhs)@.len(),
        // C12: the greatest common divisor (by divisibility) of the two operands is left in the low words of rhs (flag set) or lhs
        ret.1 ==> ret.0 <= old(rhs)@.len() && gcdo_is_gcd(val(final(rhs)@.subrange(0, ret.0 as int)), val(old(lhs)@), val(old(rhs)@)),
        !ret.1 ==> ret.0 <= old(lhs)@.len() && gcdo_is_gcd(val(final(lhs)@.subrange(0, ret.0 as int)), val(old(lhs)@), val(old(rhs)@)),
@*/
{
    // keep x >= y though the algorithm, and track the source of x and y
    debug_assert!(cmp_in_place(lhs, rhs).is_ge());
    /*@
    let ghost l0 = val(lhs@); let ghost r0 = val(rhs@);
    let ghost nl = lhs@.len() as int; let ghost nr = rhs@.len() as int;
    let ghost fl = final(lhs)@; let ghost fr = final(rhs)@;
    let ghost s0 = memory.start(); let ghost e0 = memory.end();
    @*/
    let (mut x, mut y, mut swapped) = (lhs, rhs, false);
    /*@
    let ghost mut sx: Seq<Word> = Seq::empty();
    let ghost mut sy: Seq<Word> = Seq::empty();
    proof {
        assert(final(x)@ + sx =~= final(x)@); assert(final(y)@ + sy =~= final(y)@);
        lemma_leh_cd_refl(l0, r0);
    }
    @*/

    while y.len() > 2
    /*@
        invariant
            !swapped ==> fl == final(x)@ + sx && fr == final(y)@ + sy,
            swapped ==> fl == final(y)@ + sy && fr == final(x)@ + sx,
            !swapped ==> nl == x@.len() + sx.len() && nr == y@.len() + sy.len(),
            swapped ==> nl == y@.len() + sy.len() && nr == x@.len() + sx.len(),
            2 * nl <= usize::MAX, nr <= nl,
            3 * nr + 4 <= SignedWord::MAX,
            memory.start() == s0, memory.end() == e0, mem_ok(*memory, gneed(nr / 2)),
            2 <= x@.len(), y@.len() <= x@.len(),
            x@[x@.len() - 1] != 0, y@.len() >= 1 ==> y@[y@.len() - 1] != 0,
            val(x@) >= val(y@),
            leh_same_cd(val(x@), val(y@), l0, r0),
        decreases val(x@) + val(y@),
    @*/
    {
        /*@
        let ghost vx = val(x@); let ghost vy = val(y@);
        let ghost nx = x@.len() as int; let ghost ny = y@.len() as int;
        let ghost lim = SignedWord::MAX as int;
        let ghost mut gx: int = 0; let ghost mut gy: int = 0;
        proof { lemma_gcdo_top_ge(y@); lemma_valn_bound(y@, ny); lemma_valn_bound(x@, nx); }
        @*/
        // Guess the coefficients based on the highest words
        let (a, b, c, d) = if x.len() < MIN_DWORD_GUESS_LEN {
            let (x_hi, y_hi) = highest_word_normalized(x, y);
            /*@ proof { gx = x_hi as int; gy = y_hi as int; } @*/
            lehmer_guess(x_hi, y_hi)
        } else {
            let (x_hi, y_hi) = highest_dword_normalized(x, y);
            /*@ proof { gx = x_hi as int; gy = y_hi as int; } @*/
            lehmer_guess_dword(x_hi, y_hi)
        };
        /*@ proof {
            assert(leh_top_ex(vx, vy, gx, gy));
            assert(leh_guess_post(gx, gy, a as int, b as int, c as int, d as int, lim));
        } @*/

        if b == 0 {
            // The guess has failed, do a euclidean step (x, y) = (y, x % y)
            /*@ let ghost y0 = y@; @*/
            let (shift, fast_div_top) = div::normalize(y);
            /*@ let ghost pp = pow2(shift as int); let ghost x0 = x@; let ghost y1 = y@;
            proof {
                lemma_sh_pow2_pos(shift as int);
                // scratch: this division needs div_need(|x|, |y|) <= gneed(|y| / 2) <= gneed(|rhs| / 2)
                assert(ny <= nr);
                lemma_mn_gneed_mono(imin(ny / 2, nx - ny), nr / 2);
                lemma_mn_gneed_mono(0, nr / 2);
            } @*/
            let _rem = div::div_rem_unshifted_in_place(x, y, shift, fast_div_top, memory);
            /*@
            let ghost x1 = x@; let ghost fx = final(x)@;
            let ghost qq = val(x1.subrange(ny, nx)) + (_rem as int) * pw(nx - ny);
            let ghost rr = val(x1.subrange(0, ny));
            proof { lemma_valn_bound(x1.subrange(0, ny), ny); }
            let ghost r1 = lemma_leh_euclid_norm(vx, vy, pp, qq, rr);
            let ghost rest1 = x1.subrange(ny, nx);
            @*/
            let mut r = &mut x[..y.len()];
            /*@ let ghost ra = r@; let ghost fra = final(r)@;
            proof { assert(ra =~= x1.subrange(0, ny)); assert(fx == fra + rest1); } @*/
            debug_assert_zero!(shift::shr_in_place(y, shift));
            /*@ proof {
                assert(0 * pow2(WORD_BITS - shift) == 0);
            } @*/
            debug_assert_zero!(shift::shr_in_place(r, shift));
            /*@ proof {
                assert(0 * pow2(WORD_BITS - shift) == 0);
            } @*/
            /*@ let ghost rb = r@; let ghost frb = final(r)@;
            proof { assert(val(y@) == vy); assert(val(rb) == r1); lemma_leh_top_keeps(y0, y@); assert(frb == fra); } @*/
            r = trim_leading_zeros(r);
            /*@
            let ghost rest2 = rb.subrange(r@.len() as int, rb.len() as int);
            proof {
                assert(frb == final(r)@ + rest2);
                assert(fx == final(r)@ + (rest2 + rest1)) by { assert((final(r)@ + rest2) + rest1 =~= final(r)@ + (rest2 + rest1)); }
                lemma_leh_cd_euclid(vx, vy, qq, r1, l0, r0);
            }
            @*/

            // swap: (x, y) = (y, r)
            x = mem::replace(&mut y, r);
            /*@ proof {
                let t = sx; sx = sy; sy = (rest2 + rest1) + t;
                assert(fx + t =~= final(y)@ + sy);
            } @*/
            swapped = !swapped;
        } else {
            // The lehmer guess succeeded, use the coefficients to update x, y
            /*@
            let ghost (ai, bi, ci, di) = (a as int, b as int, c as int, d as int);
            let ghost kk = choose|k: int| leh_top(vx, vy, gx, gy, k);
            let ghost xn = ai * vx - bi * vy; let ghost yn = di * vy - ci * vx;
            proof {
                lemma_leh_guess_len(gx, gy, ai, bi, ci, di, lim);
                assert(nx - ny <= 1);
                lemma_leh_apply(vx, vy, gx, gy, kk, ai, bi, ci, di, lim);
                lemma_leh_cd_unimod(vx, vy, ai, bi, ci, di, xn, yn, l0, r0);
                lemma_leh_three_words(x@);
                lemma_leh_step_size(vx, vy, xn, yn, bi, di);
            }
            @*/
            lehmer_step(x, y, a, b, c, d);
            /*@
            let ghost xa = x@; let ghost fx = final(x)@;
            let ghost ya = y@; let ghost fy = final(y)@;
            @*/
            x = trim_leading_zeros(x);
            y = trim_leading_zeros(y);
            /*@ proof {
                let rx = xa.subrange(x@.len() as int, xa.len() as int);
                let ry = ya.subrange(y@.len() as int, ya.len() as int);
                assert(fx + sx =~= final(x)@ + (rx + sx));
                assert(fy + sy =~= final(y)@ + (ry + sy));
                sx = rx + sx; sy = ry + sy;
                if x@.len() == 0 { lemma_leh_val_empty(x@); }
                if y@.len() == 0 { lemma_leh_val_empty(y@); }
            } @*/
            if cmp_in_place(x, y).is_le() {
                mem::swap(&mut x, &mut y);
                swapped = !swapped;
                /*@ proof {
                    let t = sx; sx = sy; sy = t;
                    lemma_leh_cd_swap(xn, yn, l0, r0);
                } @*/
            }
            /*@ proof { lemma_leh_two_words(x@); lemma_leh_len_le(x@, y@); } @*/
        }
    }

    /*@
    let ghost vx = val(x@); let ghost vy = val(y@); let ghost xe = x@;
    proof { lemma_gcdo_top_ge(x@); }
    @*/
    if y.is_empty() {
        // the gcd result is in x
        /*@ proof {
            lemma_leh_val_empty(y@);
            lemma_gcdo_gcd_zero(vx);
            lemma_leh_cd_gcd(vx, vx, vy, l0, r0);
            assert(x@.subrange(0, x@.len() as int) =~= x@);
            assert((final(x)@ + sx).subrange(0, x@.len() as int) =~= final(x)@);
        } @*/
        (x.len(), swapped)
    } else if y.get(1).unwrap_or(&0) == &0 {
        // forward to single word gcd, store result in x
        let y_word = *y.first().unwrap();
        /*@ proof { lemma_val1(y@); } @*/
        let x_word = div::rem_by_word(x, y_word);
        x[0] = x_word.gcd(y_word);
        /*@ proof {
            let g = x@[0] as int;
            lemma_gcdo_gcd_rem(vx, vy);
            assert(gcdo_is_gcd(g, vx % vy, vy));
            lemma_leh_cd_gcd(g, vx, vy, l0, r0);
            lemma_val1(x@.subrange(0, 1));
            assert((final(x)@ + sx).subrange(0, 1) =~= x@.subrange(0, 1));
        } @*/
        (1, swapped)
    } else {
        // forward to double word gcd, store result in x
        /*@ proof {
            lemma_val2(y@);
            assert((y@[1] as int) * B() >= B()) by (nonlinear_arith) requires y@[1] as int >= 1, B() >= 1;
        } @*/
        let y_dword = highest_dword(y);
        let x_dword = div::rem_by_dword(x, y_dword);
        let (g_lo, g_hi) = split_dword(x_dword.gcd(y_dword));
        /*@
        let ghost g = g_lo as int + (g_hi as int) * B();
        proof {
            lemma_gcdo_gcd_rem(vx, vy);
            assert(gcdo_is_gcd(g, vx % vy, vy));
            lemma_leh_cd_gcd(g, vx, vy, l0, r0);
        }
        @*/

        x[0] = g_lo;
        if g_hi != 0 {
            x[1] = g_hi;
            /*@ proof {
                lemma_val2(x@.subrange(0, 2));
                assert((final(x)@ + sx).subrange(0, 2) =~= x@.subrange(0, 2));
            } @*/
            (2, swapped)
        } else {
            /*@ proof {
                assert((g_hi as int) * B() == 0) by (nonlinear_arith) requires g_hi as int == 0;
                lemma_val1(x@.subrange(0, 1));
                assert((final(x)@ + sx).subrange(0, 1) =~= x@.subrange(0, 1));
            } @*/
            (1, swapped)
        }
    }
}
