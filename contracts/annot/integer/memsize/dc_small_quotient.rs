//@ item: integer/src/div/divide_conquer.rs :: div_rem_in_place_small_quotient
// RESOURCE contract, PREFIX ONLY (rule D20u): the two uses of the scratch memory (the 2m/m division by the top words and
// the m x (n - m) product) come first; the correction loop behind them is value-dependent (its termination and the
// absence of overflow are proved in int_div_dc) and does not mention `memory` (checked on the real tokens by D20u).
// With m = |lhs| - |rhs| quotient words, gneed(min(m, floor(n / 2))) Words suffice.
fn div_rem_in_place_small_quotient(
    lhs: &mut [Word],
    rhs: &[Word],
    fast_div_rhs_top: FastDivideNormalized2,
    memory: &mut Memory,
) -> bool
/*@
    requires 2 <= rhs@.len() <= old(lhs)@.len() <= usize::MAX, old(lhs)@.len() - rhs@.len() < rhs@.len(),
        div_prepared(rhs@, fast_div_rhs_top),
        3 * rhs@.len() + 4 <= SignedWord::MAX,
        mem_ok(*old(memory), gneed(imin(old(lhs)@.len() - rhs@.len(), rhs@.len() as int / 2))),
    ensures final(lhs)@.len() == old(lhs)@.len(),
        mem_same(*final(memory), *old(memory)),
    decreases rhs@.len(), 0int
@*/
{
    let n = rhs.len();
    assert!(n >= 2 && lhs.len() >= n);
    let m = lhs.len() - n;
    assert!(m < n);
    if m <= div::THRESHOLD_SIMPLE {
        return div::simple::div_rem_in_place(lhs, rhs, fast_div_rhs_top);
    }
    /*@
    let ghost ni = n as int;
    let ghost mi = m as int;
    proof {
        let rhi = rhs@.subrange(ni - mi, ni);
        assert(rhi[mi - 2] == rhs@[ni - 2] && rhi[mi - 1] == rhs@[ni - 1]);
        lemma_mn_gneed_mono(mi / 2, imin(mi, ni / 2));
        lemma_mn_gneed_mono(imin(mi, ni - mi), imin(mi, ni / 2));
    }
    @*/
    // Use top m words of the divisor to get a quotient approximation. It may be too large by at most 2.
    // Quotient is in lhs[n..], remainder in lhs[..n].
    // This is a 2m / m division.
    let mut q_overflow: SignedWord =
        div_rem_in_place_same_len(&mut lhs[n - m..], &rhs[n - m..], fast_div_rhs_top, memory)
            .into();
    let (rem, q) = lhs.split_at_mut(n);

    // Subtract q * (the rest of rhs) from rem.
    // The multiplication here is m words by * (n-m) words.
    let mut rem_overflow: SignedWord = mul::add_signed_mul(rem, Negative, q, &rhs[..n - m], memory);
    /*@ #[cut_tail_unused(memory)] @*/
    if q_overflow != 0 {
        rem_overflow -= SignedWord::from(add::sub_same_len_in_place(&mut rem[m..], &rhs[..n - m]));
    }

    // If the remainder overflowed, adjust q and rem.
    while rem_overflow < 0 {
        rem_overflow += SignedWord::from(add::add_same_len_in_place(rem, rhs));
        q_overflow -= SignedWord::from(add::sub_one_in_place(q));
    }

    debug_assert!(rem_overflow == 0 && (0..=1).contains(&q_overflow));
    q_overflow != 0
}
