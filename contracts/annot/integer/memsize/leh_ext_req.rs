//@ item: integer/src/gcd/lehmer.rs :: memory_requirement_ext_up_to
// The scratch of gcd_ext_in_place: ext_need(lhs_len) = 2 (lhs_len + 1) + gneed(ceil(lhs_len / 2)) Words (see
// annot/integer/memsize/gcd_ext_in_place.rs).  With the text before the repair 914fd28 (`lhs_len / 2`) the contract fails (genuine defect: the final cofactor product can
// have lhs_len + 1 words).
pub fn memory_requirement_ext_up_to(lhs_len: usize, rhs_len: usize) -> Layout
/*@
    requires lhs_len >= rhs_len && rhs_len >= 2, lhs_len <= usize::MAX / 16,
    ensures lay_ok(ret, ext_need(lhs_len as int)), lay_wordish(ret),
@*/
{
    /*@ proof { lemma_word_layout(); lemma_mn_gneed_mono(0, (lhs_len as int + 1) / 2); } @*/
    // Required memory:
    // - two numbers (t0 & t1) with at most the same size as lhs, add 1 buffer word
    // - temporary space for a division (for euclidean step), and later a mulitplication (for coeff update)
    let t_words = 2 * lhs_len + 2;
    memory::add_layout(
        memory::array_layout::<Word>(t_words),
        memory::max_layout(
            div::memory_requirement_exact(lhs_len, rhs_len), //
            // for coeff update: q * t1 has at most lhs_len words inside the loop, but the final product x * t1
            // (x not trimmed after the division by the last word) can have lhs_len + 1: smaller factor <= ceil(lhs_len / 2)
            mul::memory_requirement_up_to(lhs_len, (lhs_len + 1) / 2),
        ),
    )
}
