//@ item: integer/src/div/divide_conquer.rs :: memory_requirement_exact
pub fn memory_requirement_exact(lhs_len: usize, rhs_len: usize) -> Layout
/*@
    requires lhs_len >= rhs_len,                       // its own run-time assertion
        rhs_len <= usize::MAX / 8,                     // length of a Word slice
    ensures lay_ok(ret, dc_need(lhs_len as int, rhs_len as int)), lay_wordish(ret),
@*/
{
    assert!(lhs_len >= rhs_len);
    // We need space for multiplications summing up to rhs.len(),
    // and at most lhs_len - rhs_len long.
    // One of the factors will be at most floor(rhs.len()/2),
    // and one of the factors will be at most lhs_len - rhs_len long.
    let smaller_len = (rhs_len / 2).min(lhs_len - rhs_len);
    mul::memory_requirement_up_to(rhs_len, smaller_len)
}
