//@ item: integer/src/mul/toom_3.rs :: add_signed_mul
// RESOURCE contract: tneed(|b|) for the chunks (Toom-3 on |b| x |b| words) and gneed(|b| - 1) for the remainder product.
// |b| >= 17 from the call site (the dispatcher comes here above THRESHOLD_KARATSUBA = 192).
pub fn add_signed_mul(
    c: &mut [Word],
    sign: Sign,
    a: &[Word],
    b: &[Word],
    memory: &mut Memory,
) -> SignedWord
/*@
    requires a@.len() >= b@.len(), b@.len() >= 17, old(c)@.len() == a@.len() + b@.len(), old(c)@.len() <= usize::MAX,
        3 * old(c)@.len() + 4 <= SignedWord::MAX,
        old(memory).capw() >= tneed(b@.len() as int),
        mem_ok(*old(memory), gneed(b@.len() as int - 1)),
    ensures final(c)@.len() == old(c)@.len(), -rbnd(old(c)@.len() as int) <= ret <= rbnd(old(c)@.len() as int),
        mem_same(*final(memory), *old(memory)),
    decreases b@.len(), a@.len() + b@.len(), 2int
@*/
{
    assert!(a.len() >= b.len() && b.len() >= MIN_LEN && c.len() == a.len() + b.len());

    helpers::add_signed_mul_split_into_chunks(
        c,
        sign,
        a,
        b,
        b.len(),
        memory,
        add_signed_mul_same_len,
    )
}
