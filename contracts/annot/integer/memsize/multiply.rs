//@ item: integer/src/mul/mod.rs :: multiply
// RESOURCE contract: as add_signed_mul.
pub fn multiply<'a>(c: &mut [Word], a: &'a [Word], b: &'a [Word], memory: &mut Memory)
/*@
    requires old(c)@.len() == a@.len() + b@.len(), old(c)@.len() <= usize::MAX,
        3 * old(c)@.len() + 4 <= SignedWord::MAX,
        mem_ok(*old(memory), gneed(imin(a@.len() as int, b@.len() as int))),
    ensures final(c)@.len() == old(c)@.len(),
        mem_same(*final(memory), *old(memory)),
@*/
{
    debug_assert!(c.iter().all(|&v| v == 0));
    debug_assert_zero!(add_signed_mul(c, Sign::Positive, a, b, memory));
}
