//@ item: integer/src/mul/karatsuba.rs :: add_signed_mul_same_len
// RESOURCE contract (scratch memory only; the functional contract of the same function is proved in int_mul_karatsuba):
// a chunk that offers kneed(n) Words is enough for every allocation of this function and of the three nested products.
// n >= 4 (the dispatcher only comes here above THRESHOLD_SIMPLE = 24): the last carry window c[3 mid..] is then non-empty,
// which bounds the returned carry WITHOUT the value proof (|ret| <= 2 is all the callers need to exclude overflow).
pub fn add_signed_mul_same_len(
    c: &mut [Word],
    sign: Sign,
    a: &[Word],
    b: &[Word],
    memory: &mut Memory,
) -> SignedWord
/*@
    requires a@.len() == b@.len(), old(c)@.len() == a@.len() + b@.len(), old(c)@.len() <= usize::MAX,
        a@.len() >= 4,
        old(memory).capw() >= kneed(a@.len() as int),
    ensures final(c)@.len() == old(c)@.len(), -2 <= ret <= 2,
        mem_same(*final(memory), *old(memory)),
@*/
{
    /*@ hide(valn); hide(pw); @*/
    let n = a.len();
    debug_assert!(b.len() == n && c.len() == 2 * n);
    debug_assert!(n >= MIN_LEN);

    let mid = (n + 1) / 2;

    let (a_lo, a_hi) = a.split_at(mid);
    let (b_lo, b_hi) = b.split_at(mid);
    /*@
    let ghost ni = n as int;
    let ghost m = mid as int;
    let ghost cap = memory.capw();
    proof {
        assert(1 <= ni - m <= m && m < ni && 3 * m < 2 * ni);
        assert(kneed(ni) == imax(2 * m + need(m), 2 * (ni - m) + need(ni - m)));
        lemma_mn_need_hbound(m); lemma_mn_need_hbound(ni - m);
    }
    @*/
    // Result = a_lo * b_lo + a_hi * b_hi * Word^(2mid)
    //        + (a_lo * b_lo + a_hi * b_hi - (a_lo-a_hi)*(b_lo-b_hi)) * Word^mid
    let mut carry: SignedWord = 0;
    let mut carry_c0: SignedWord = 0; // 2*mid
    let mut carry_c1: SignedWord = 0; // 3*mid

    {
        // c_0 += a_lo * b_lo
        // c_1 += a_lo * b_lo
        /*@ proof { lemma_mem_take(memory.start(), memory.end(), (2 * m) as nat); } @*/
        let (c_lo, mut memory) = memory.allocate_slice_fill::<Word>(2 * mid, 0);
        /*@ proof { assert(memory.capw() == cap - 2 * m); } @*/
        debug_assert_zero!(mul::add_signed_mul_same_len(c_lo, Positive, a_lo, b_lo, &mut memory));
        carry_c0 += add::add_signed_same_len_in_place(&mut c[..2 * mid], sign, c_lo);
        carry_c1 += add::add_signed_same_len_in_place(&mut c[mid..3 * mid], sign, c_lo);
    }
    {
        // c_2 += a_hi * b_hi
        // c_1 += a_hi * b_hi
        /*@ proof { lemma_mem_take(memory.start(), memory.end(), (2 * (ni - m)) as nat); } @*/
        let (c_hi, mut memory) = memory.allocate_slice_fill::<Word>(2 * (n - mid), 0);
        /*@ proof { assert(memory.capw() == cap - 2 * (ni - m)); } @*/
        debug_assert_zero!(mul::add_signed_mul_same_len(c_hi, Positive, a_hi, b_hi, &mut memory));
        carry += add::add_signed_same_len_in_place(&mut c[2 * mid..], sign, c_hi);
        carry_c1 += add::add_signed_in_place(&mut c[mid..3 * mid], sign, c_hi);
    }
    {
        // c1 -= (a_lo - a_hi) * (b_lo - b_hi)
        /*@ proof { lemma_mem_take(memory.start(), memory.end(), m as nat); } @*/
        let (a_diff, mut memory) = memory.allocate_slice_copy(a_lo);
        let mut diff_sign = add::sub_in_place_with_sign(a_diff, a_hi);
        /*@ proof { assert(memory.capw() == cap - m); lemma_mem_take(memory.start(), memory.end(), m as nat); } @*/
        let (b_diff, mut memory) = memory.allocate_slice_copy(b_lo);
        /*@ proof { assert(memory.capw() == cap - 2 * m); } @*/
        diff_sign *= add::sub_in_place_with_sign(b_diff, b_hi);

        carry_c1 += mul::add_signed_mul_same_len(
            &mut c[mid..3 * mid],
            -sign * diff_sign,
            a_diff,
            b_diff,
            &mut memory,
        );
    }

    // Propagate carries.
    carry_c1 += add::add_signed_word_in_place(&mut c[2 * mid..3 * mid], carry_c0);
    carry += add::add_signed_word_in_place(&mut c[3 * mid..], carry_c1);

    debug_assert!(carry.abs() <= 1);
    carry
}
