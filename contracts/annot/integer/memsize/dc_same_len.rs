//@ item: integer/src/div/divide_conquer.rs :: div_rem_in_place_same_len
// RESOURCE contract: two 3n/2n divisions with ceil(n/2) resp. floor(n/2) quotient words: gneed(floor(n / 2)) Words suffice.
fn div_rem_in_place_same_len(
    lhs: &mut [Word],
    rhs: &[Word],
    fast_div_rhs_top: FastDivideNormalized2,
    memory: &mut Memory,
) -> bool
/*@
    requires rhs@.len() > 32 /* div::THRESHOLD_SIMPLE */, old(lhs)@.len() == 2 * rhs@.len(), old(lhs)@.len() <= usize::MAX,
        div_prepared(rhs@, fast_div_rhs_top),
        3 * rhs@.len() + 4 <= SignedWord::MAX,
        mem_ok(*old(memory), gneed(rhs@.len() as int / 2)),
    ensures final(lhs)@.len() == old(lhs)@.len(),
        mem_same(*final(memory), *old(memory)),
    decreases rhs@.len(), 1int
@*/
{
    let n = rhs.len();
    assert!(n > div::THRESHOLD_SIMPLE && lhs.len() == 2 * n);
    // To guarantee n_lo >= 2.
    const_assert!(div::THRESHOLD_SIMPLE >= 3);
    let n_lo = n / 2;

    // Divide lhs[n_lo..] by rhs, putting quotient in lhs[n+n_lo..] and remainder in lhs[n_lo..n+n_lo].
    // This is a 3n/2n division.
    let overflow = div_rem_in_place_small_quotient(&mut lhs[n_lo..], rhs, fast_div_rhs_top, memory);

    // Divide lhs[..n+n_lo] by rhs, putting the rest of the quotient in lhs[n..n+n_lo] and remainder
    // in lhs[..n]. This is also a 3n/2n division.
    let overflow_lo =
        div_rem_in_place_small_quotient(&mut lhs[..n + n_lo], rhs, fast_div_rhs_top, memory);
    debug_assert!(!overflow_lo);

    overflow
}
