//@ item: integer/src/mul/simple.rs :: const CHUNK_LEN
const CHUNK_LEN: usize = 1024;
