//@ item: integer/src/mul_ops.rs :: mod repr :: mul_large
// RESOURCE contract of the top-level caller: the scratch allocation made from mul::memory_requirement_exact is large enough
// for mul::multiply, i.e. the public `*` on two large integers never panics with "not enough memory allocated".
// (3 (|lhs| + |rhs|) + 4 <= SignedWord::MAX is implied by the capacity bound when Word = u64; see lib/mem_chunk_spec.rs rbnd.)
pub(crate) fn mul_large(lhs: &[Word], rhs: &[Word]) -> Repr
/*@
    requires lhs@.len() >= 2, rhs@.len() >= 2,          // the function's own debug assertion
        normalized(lhs@), normalized(rhs@),             // debug assertion of cmp_in_place (call sites: `Large` magnitudes)
        lhs@.len() + rhs@.len() <= max_capacity(),      // resource: length of the product buffer
        3 * (lhs@.len() + rhs@.len()) + 4 <= SignedWord::MAX,
    ensures true,
@*/
{
    debug_assert!(lhs.len() >= 2 && rhs.len() >= 2);

    // shortcut to square if two operands are equal
    if cmp_in_place(lhs, rhs).is_eq() {
        return square_large(lhs);
    }

    let res_len = lhs.len() + rhs.len();
    let mut buffer = Buffer::allocate(res_len);
    buffer.push_zeros(res_len);

    let mut allocation =
        MemoryAllocation::new(mul::memory_requirement_exact(res_len, lhs.len().min(rhs.len())));
    /*@ proof {
        lemma_mem_alloc(allocation.start(), allocation.size(), allocation.al(), gneed(imin(lhs@.len() as int, rhs@.len() as int)));
    } @*/
    mul::multiply(&mut buffer, lhs, rhs, &mut allocation.memory());
    Repr::from_buffer(buffer)
}
