//@ item: integer/src/div/mod.rs :: memory_requirement_exact
pub fn memory_requirement_exact(lhs_len: usize, rhs_len: usize) -> Layout
/*@
    requires lhs_len >= rhs_len && rhs_len >= 2,       // its own run-time assertion
        rhs_len <= usize::MAX / 8,                     // length of a Word slice
    ensures lay_ok(ret, div_need(lhs_len as int, rhs_len as int)), lay_wordish(ret),
@*/
{
    assert!(lhs_len >= rhs_len && rhs_len >= 2);
    if rhs_len <= THRESHOLD_SIMPLE || lhs_len - rhs_len <= THRESHOLD_SIMPLE {
        memory::zero_layout()
    } else {
        divide_conquer::memory_requirement_exact(lhs_len, rhs_len)
    }
}
