//@ item: integer/src/div/mod.rs :: div_rem_unshifted_in_place
// RESOURCE contract, PREFIX ONLY (rule D20u): up to and including the call of div_rem_in_place, the only use of `memory`;
// the tail `q_top += overflow as Word; q_top` is a value fact (no overflow: proved in int_div_ops) and does not mention
// `memory`.  The proof steps in front of div_rem_highest_word (its quotient fits one word) are those of the functional copy.
pub(crate) fn div_rem_unshifted_in_place(
    lhs: &mut [Word],
    rhs: &[Word],
    shift: u32,
    fast_div_rhs_top: FastDivideNormalized2,
    memory: &mut Memory,
) -> Word
/*@
    requires
        rhs@.len() <= old(lhs)@.len() <= usize::MAX, div_prepared(rhs@, fast_div_rhs_top),
        2 * rhs@.len() <= usize::MAX, shift < WORD_BITS,
        3 * rhs@.len() + 4 <= SignedWord::MAX,
        mem_ok(*old(memory), div_need(old(lhs)@.len() as int, rhs@.len() as int)),
    ensures final(lhs)@.len() == old(lhs)@.len(),
        mem_same(*final(memory), *old(memory)),
@*/
{
    // prerequisite: let (shift, fast_div_rhs_top) = normalize(rhs);
    let lhs_carry = shift::shl_in_place(lhs, shift);
    /*@
    let ghost n = rhs@.len() as int;
    let ghost len = lhs@.len() as int;
    let ghost rr = val(rhs@);
    let ghost s1 = lhs@;
    let ghost t1 = s1.subrange(len - n, len);
    proof {
        lemma_ds_normalized_half(rhs@, fast_div_rhs_top.divisor());
        lemma_valn_bound(t1, n);
        lemma_sh_pow2_mono(shift as int, WORD_BITS as int - 1);
        lemma_sh_pow2_bits();
        assert(pow2(WORD_BITS as int) == 2 * pow2(WORD_BITS as int - 1));
        lemma_dg_carry_fits(lhs_carry as int, val(t1), pw(n), rr, pow2(shift as int));
        lemma_ds_split_top(s1, len - n);
    }
    @*/
    let mut q_top = if lhs_carry > 0 {
        div_rem_highest_word(lhs_carry, lhs, rhs, fast_div_rhs_top)
    } else {
        0
    };
    let overflow = div_rem_in_place(lhs, rhs, fast_div_rhs_top, memory);
    /*@ #[cut_tail_unused(memory)] @*/
    q_top += overflow as Word;
    q_top
}
