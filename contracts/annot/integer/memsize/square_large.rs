//@ item: integer/src/mul_ops.rs :: mod repr :: square_large
// RESOURCE contract: the scratch allocation made from sqr::memory_requirement_exact is large enough for sqr::sqr.
pub(crate) fn square_large(words: &[Word]) -> Repr
/*@
    requires words@.len() >= 2,                         // the function's own debug assertion
        words@.len() * 2 <= max_capacity(),             // resource: length of the product buffer
    ensures true,
@*/
{
    debug_assert!(words.len() >= 2);

    let mut buffer = Buffer::allocate(words.len() * 2);
    buffer.push_zeros(words.len() * 2);

    let mut allocation = MemoryAllocation::new(sqr::memory_requirement_exact(words.len()));
    /*@ proof {
        lemma_mem_alloc(allocation.start(), allocation.size(), allocation.al(), sqr_need(words@.len() as int));
    } @*/
    sqr::sqr(&mut buffer, words, &mut allocation.memory());
    Repr::from_buffer(buffer)
}
