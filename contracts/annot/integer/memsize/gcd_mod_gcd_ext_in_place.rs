//@ item: integer/src/gcd/mod.rs :: gcd_ext_in_place
// FUNCTIONAL + RESOURCE contract of the wrapper (see annot/integer/memsize/gcd_ext_in_place.rs)
pub fn gcd_ext_in_place(
    lhs: &mut [Word],
    rhs: &mut [Word],
    memory: &mut Memory,
) -> (usize, usize, Sign)
/*@
    requires
        // from the call site (gcd_ops.rs gcd_ext_large: two `Large` operands, lhs > rhs)
        2 <= old(rhs)@.len() <= old(lhs)@.len(),
        old(lhs)@[old(lhs)@.len() - 1] != 0, old(rhs)@[old(rhs)@.len() - 1] != 0,
        val(old(lhs)@) > val(old(rhs)@),
        2 * old(lhs)@.len() + 2 <= usize::MAX,   // true of every real slice of words
        3 * (old(lhs)@.len() + 1) + 4 <= SignedWord::MAX,
        old(memory).capw() >= ext_need(old(lhs)@.len() as int),
    ensures
        mem_same(*final(memory), *old(memory)),
        final(lhs)@.len() == old(lhs)@.len(), final(rhs)@.len() == old(rhs)@.len(),
        1 <= ret.0 <= old(rhs)@.len(), ret.1 <= old(lhs)@.len(),
        // C12: g = gcd(lhs, rhs) in rhs[..ret.0], |b| in lhs[..ret.1], sign of b returned:  a*lhs + b*rhs == g for some a
        inplace_gcd_ext_post(val(old(lhs)@), val(old(rhs)@), val(final(rhs)@.subrange(0, ret.0 as int)), ret.2,
            val(final(lhs)@.subrange(0, ret.1 as int))),
@*/
{
    lehmer::gcd_ext_in_place(lhs, rhs, memory)
}
