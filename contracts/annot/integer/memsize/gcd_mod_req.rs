//@ item: integer/src/gcd/mod.rs :: memory_requirement_exact
pub fn memory_requirement_exact(lhs_len: usize, rhs_len: usize) -> Layout
/*@
    requires rhs_len <= usize::MAX / 4,
    ensures lay_ok(ret, gneed(rhs_len as int / 2)), lay_wordish(ret),
@*/
{
    lehmer::memory_requirement_up_to(lhs_len, rhs_len)
}
