//@ item: integer/src/div_ops.rs :: mod repr :: div_rem_in_lhs
// RESOURCE contract of the top-level caller: the scratch allocation made from div::memory_requirement_exact(|lhs|, |rhs|)
// is large enough for div::div_rem_unshifted_in_place, i.e. the public `/`, `%`, div_rem on two large integers never panic
// with "not enough memory allocated".  (3 |rhs| + 4 <= SignedWord::MAX follows from the capacity bound when Word = u64.)
fn div_rem_in_lhs(lhs: &mut Buffer, rhs: &mut Buffer) -> u32
/*@
    requires
        2 <= old(rhs)@.len() <= old(lhs)@.len(), old(rhs)@[old(rhs)@.len() - 1] != 0,
        old(lhs)@.len() >= 3 || old(lhs)@.len() < old(lhs).capacity(),
        old(lhs)@.len() < max_capacity(),             // resource: room for the top quotient word
        3 * old(rhs)@.len() + 4 <= SignedWord::MAX,
    ensures true,
@*/
{
    let mut allocation =
        MemoryAllocation::new(div::memory_requirement_exact(lhs.len(), rhs.len()));
    /*@ proof {
        lemma_mem_alloc(allocation.start(), allocation.size(), allocation.al(), div_need(lhs@.len() as int, rhs@.len() as int));
    } @*/
    let (shift, fast_div_top) = div::normalize(rhs);
    let quo_carry = div::div_rem_unshifted_in_place(
        lhs,
        rhs,
        shift,
        fast_div_top,
        &mut allocation.memory(),
    );
    lhs.push_resizing(quo_carry);
    shift
}
