//@ item: integer/src/mul/toom_3.rs :: add_signed_mul_same_len
// RESOURCE contract (scratch memory only; the functional contract of the same function is proved in int_mul_toom3):
// a chunk that offers tneed(n) Words is enough for the eight allocations of this function and for the five nested products.
// n >= 17 (the dispatcher only comes here above THRESHOLD_KARATSUBA = 192): the last carry window c[5 n3 + 2..] is then
// non-empty, which bounds the returned carry without the value proof.  The two run-time `assert_eq!` (exact divisions by
// 6 and 2) are value facts: here possible panics (#[assert_guard]); they are PROVED unreachable in int_mul_toom3.
/*@ #[verifier::spinoff_prover] #[verifier::rlimit(100)] @*/
pub fn add_signed_mul_same_len(
    c: &mut [Word],
    sign: Sign,
    a: &[Word],
    b: &[Word],
    memory: &mut Memory,
) -> SignedWord
/*@ #[assert_guard]
    requires a@.len() == b@.len(), old(c)@.len() == a@.len() + b@.len(), old(c)@.len() <= usize::MAX,
        a@.len() >= 17,
        old(memory).capw() >= tneed(a@.len() as int),
    ensures final(c)@.len() == old(c)@.len(), -2 <= ret <= 2,
        mem_same(*final(memory), *old(memory)),
@*/
{
    /*@ hide(valn); hide(pw); @*/
    let n = a.len();
    debug_assert!(b.len() == n && c.len() == 2 * n);
    debug_assert!(n >= MIN_LEN);

    // Split into 3 parts. Note: a2, b2 may be shorter.
    let n3 = (n + 2) / 3;
    let n3_short = n - 2 * n3;

    let (a0, a12) = a.split_at(n3);
    let (a1, a2) = a12.split_at(n3);
    let (b0, b12) = b.split_at(n3);
    let (b1, b2) = b12.split_at(n3);
    /*@
    let ghost ni = n as int; let ghost k = n3 as int; let ghost ks = n3_short as int;
    let ghost cap = memory.capw();
    proof {
        assert(6 <= k && 1 <= ks <= k && 5 * k + 2 < 2 * ni && ks == ni - 2 * k);
        assert(tneed(ni) == imax(imax(2 * k + 2 + need(k), 4 * k + 4 + need(k + 1)),
                                 imax(6 * k + 6 + need(ks), 8 * k + 8 + need(k + 1))));
        lemma_mn_need_hbound(k); lemma_mn_need_hbound(k + 1); lemma_mn_need_hbound(ks);
    }
    @*/

    let mut carry: SignedWord = 0;
    // Accumulate intermediate carries, we will add them at the end.
    let mut carry_c0: SignedWord = 0; // at 2*n3
    let mut carry_c1: SignedWord = 0; // at 3*n3+2
    let mut carry_c2: SignedWord = 0; // at 4*n3+2
    let mut carry_c3: SignedWord = 0; // at 5*n3+2

    // Evaluate at 0.
    /*@ proof { lemma_mem_take(memory.start(), memory.end(), (2 * k + 2) as nat); } @*/
    let (t1, mut memory) = memory.allocate_slice_fill(2 * n3 + 2, 0);
    /*@ proof { assert(memory.capw() == cap - (2 * k + 2)); } @*/
    {
        let t1_short = &mut t1[..2 * n3];
        debug_assert_zero!(mul::add_signed_mul_same_len(t1_short, Positive, a0, b0, &mut memory));
        carry_c0 += add::add_signed_same_len_in_place(&mut c[..2 * n3], sign, t1_short);
        carry_c2 += add::add_signed_in_place(&mut c[2 * n3..4 * n3 + 2], -sign, t1_short);
        t1[2 * n3] = mul::mul_word_in_place(t1_short, 3);
        t1[2 * n3 + 1] = 0;
    }

    // Evaluate at 2.
    /*@ proof { lemma_mem_take(memory.start(), memory.end(), (k + 1) as nat); } @*/
    let (a_eval, mut memory) = memory.allocate_slice_copy_fill(n3 + 1, a0, 0);
    /*@ proof { assert(memory.capw() == cap - (3 * k + 3)); lemma_mem_take(memory.start(), memory.end(), (k + 1) as nat); } @*/
    let (b_eval, mut memory) = memory.allocate_slice_copy_fill(n3 + 1, b0, 0);
    /*@ proof { assert(memory.capw() == cap - (4 * k + 4)); } @*/
    {
        /*@ let ghost ae0 = a_eval@; @*/
        a_eval[n3] = mul::add_mul_word_same_len_in_place(&mut a_eval[..n3], 2, a1);
        /*@ #[after_rhs] proof { lemma_mk_carry(ae0.subrange(0, k), a_eval@.subrange(0, k), a1@, __rhs0 as int, 2); } @*/
        /*@ let ghost ae1 = a_eval@; @*/
        a_eval[n3] += mul::add_mul_word_in_place(&mut a_eval[..n3], 4, a2);
        /*@ #[after_rhs] proof { lemma_mk_carry(ae1.subrange(0, k), a_eval@.subrange(0, k), a2@, __rhs1 as int, 4); } @*/
        /*@ let ghost be0 = b_eval@; @*/
        b_eval[n3] = mul::add_mul_word_same_len_in_place(&mut b_eval[..n3], 2, b1);
        /*@ #[after_rhs] proof { lemma_mk_carry(be0.subrange(0, k), b_eval@.subrange(0, k), b1@, __rhs2 as int, 2); } @*/
        /*@ let ghost be1 = b_eval@; @*/
        b_eval[n3] += mul::add_mul_word_in_place(&mut b_eval[..n3], 4, b2);
        /*@ #[after_rhs] proof { lemma_mk_carry(be1.subrange(0, k), b_eval@.subrange(0, k), b2@, __rhs3 as int, 4); } @*/
        debug_assert_zero!(mul::add_signed_mul_same_len(t1, Positive, a_eval, b_eval, &mut memory));
    }

    // Evaluate at inf.
    {
        /*@ proof { lemma_mem_take(memory.start(), memory.end(), (2 * k + 2) as nat); } @*/
        let (c_eval, mut memory) = memory.allocate_slice_fill(2 * n3 + 2, 0);
        /*@ proof { assert(memory.capw() == cap - (6 * k + 6)); } @*/
        let c_short = &mut c_eval[..2 * n3_short];
        debug_assert_zero!(mul::add_signed_mul_same_len(c_short, Positive, a2, b2, &mut memory));
        carry_c2 += add::add_signed_in_place(&mut c[2 * n3..4 * n3 + 2], -sign, c_short);
        carry += add::add_signed_same_len_in_place(&mut c[4 * n3..], sign, c_short);
        c_eval[2 * n3_short] = mul::mul_word_in_place(c_short, 12);
        // 3V(0) + V(2) - 12V(inf) is never negative
        debug_assert_zero!(add::sub_in_place(t1, &c_eval[..2 * n3_short + 1]));
    }

    // Sign of V(-1).
    let mut value_neg1_sign;
    /*@ proof { lemma_mem_take(memory.start(), memory.end(), (2 * k + 2) as nat); } @*/
    let (t2, mut memory) = memory.allocate_slice_fill(2 * n3 + 2, 0);
    /*@ proof { assert(memory.capw() == cap - (6 * k + 6)); } @*/
    {
        // Evaluate at 1.
        /*@ proof { lemma_mem_take(memory.start(), memory.end(), (k + 1) as nat); } @*/
        let (a02, mut memory) = memory.allocate_slice_copy_fill(n3 + 1, a0, 0);
        /*@ proof { assert(memory.capw() == cap - (7 * k + 7)); } @*/
        a02[n3] = Word::from(add::add_in_place(&mut a02[..n3], a2));
        a_eval.copy_from_slice(a02);
        a_eval[n3] += Word::from(add::add_same_len_in_place(&mut a_eval[..n3], a1));

        /*@ proof { lemma_mem_take(memory.start(), memory.end(), (k + 1) as nat); } @*/
        let (b02, mut memory) = memory.allocate_slice_copy_fill(n3 + 1, b0, 0);
        /*@ proof { assert(memory.capw() == cap - (8 * k + 8)); } @*/
        b02[n3] = Word::from(add::add_in_place(&mut b02[..n3], b2));
        b_eval.copy_from_slice(b02);
        b_eval[n3] += Word::from(add::add_same_len_in_place(&mut b_eval[..n3], b1));

        debug_assert_zero!(mul::add_signed_mul_same_len(t2, Positive, a_eval, b_eval, &mut memory));
        carry_c1 += add::add_signed_in_place(&mut c[n3..3 * n3 + 2], sign, t2);

        // Evaluate at -1.
        a_eval.copy_from_slice(a02);
        value_neg1_sign = add::sub_in_place_with_sign(a_eval, a1);
        b_eval.copy_from_slice(b02);
        value_neg1_sign *= add::sub_in_place_with_sign(b_eval, b1);
        // We don't need a02, b02 any more, exit the block so that we can use c_eval again.
    }
    /*@ proof { lemma_mem_take(memory.start(), memory.end(), (2 * (k + 1)) as nat); } @*/
    let (c_eval, mut memory) = memory.allocate_slice_fill(2 * (n3 + 1), 0);
    /*@ proof { assert(memory.capw() == cap - (8 * k + 8)); } @*/
    debug_assert_zero!(mul::add_signed_mul_same_len(c_eval, Positive, a_eval, b_eval, &mut memory));
    debug_assert_zero!(add::add_signed_same_len_in_place(t2, value_neg1_sign, c_eval));
    match value_neg1_sign {
        Positive => debug_assert_zero!(mul::add_mul_word_same_len_in_place(t1, 2, c_eval)),
        Negative => debug_assert_zero!(mul::sub_mul_word_same_len_in_place(t1, 2, c_eval)),
    }

    // t1 /= 6
    // t2 /= 2
    let t1_rem = div::div_by_word_in_place(t1, 6);
    let t2_rem = shift::shr_in_place(t2, 1);
    assert_eq!(t1_rem, 0);
    assert_eq!(t2_rem, 0);

    carry_c1 += add::add_signed_same_len_in_place(&mut c[n3..3 * n3 + 2], -sign, t1);
    carry_c3 += add::add_signed_same_len_in_place(&mut c[3 * n3..5 * n3 + 2], sign, t1);
    carry_c2 += add::add_signed_same_len_in_place(&mut c[2 * n3..4 * n3 + 2], sign, t2);
    carry_c3 += add::add_signed_same_len_in_place(&mut c[3 * n3..5 * n3 + 2], -sign, t2);

    // Apply carries.
    carry_c1 += add::add_signed_word_in_place(&mut c[2 * n3..3 * n3 + 2], carry_c0);
    carry_c2 += add::add_signed_word_in_place(&mut c[3 * n3 + 2..4 * n3 + 2], carry_c1);
    carry_c3 += add::add_signed_word_in_place(&mut c[4 * n3 + 2..5 * n3 + 2], carry_c2);
    carry += add::add_signed_word_in_place(&mut c[5 * n3 + 2..], carry_c3);

    debug_assert!(carry.abs() <= 1);
    carry
}
