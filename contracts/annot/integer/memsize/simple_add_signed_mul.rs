//@ item: integer/src/mul/simple.rs :: add_signed_mul
// RESOURCE contract: the schoolbook kernel itself takes nothing, but for |a| > CHUNK_LEN the remainder of `a` goes back to
// mul::add_signed_mul, which may pick another strategy when |b| > THRESHOLD_SIMPLE (never the case from the dispatcher).
pub fn add_signed_mul(
    c: &mut [Word],
    sign: Sign,
    a: &[Word],
    b: &[Word],
    memory: &mut Memory,
) -> SignedWord
/*@
    requires a@.len() >= b@.len(), b@.len() <= 1024 /* MAX_SMALLER_LEN */, old(c)@.len() == a@.len() + b@.len(), old(c)@.len() <= usize::MAX,
        3 * old(c)@.len() + 4 <= SignedWord::MAX,
        mem_ok(*old(memory), gneed(b@.len() as int)),
    ensures final(c)@.len() == old(c)@.len(), -rbnd(old(c)@.len() as int) <= ret <= rbnd(old(c)@.len() as int),
        mem_same(*final(memory), *old(memory)),
    decreases b@.len(), a@.len() + b@.len(), 2int
@*/
{
    debug_assert!(a.len() >= b.len() && c.len() == a.len() + b.len());
    debug_assert!(b.len() <= MAX_SMALLER_LEN);
    if a.len() <= CHUNK_LEN {
        add_signed_mul_chunk(c, sign, a, b, memory)
    } else {
        /*@ proof { lemma_mn_gneed_mono(imin(CHUNK_LEN as int - 1, b@.len() as int), b@.len() as int); } @*/
        helpers::add_signed_mul_split_into_chunks(
            c,
            sign,
            a,
            b,
            CHUNK_LEN,
            memory,
            add_signed_mul_chunk,
        )
    }
}
