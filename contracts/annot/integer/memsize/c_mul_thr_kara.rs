//@ item: integer/src/mul/mod.rs :: const THRESHOLD_KARATSUBA
const THRESHOLD_KARATSUBA: usize = 192;
