//@ item: integer/src/mul/mod.rs :: const THRESHOLD_SIMPLE
const THRESHOLD_SIMPLE: usize = 24;
