//@ item: integer/src/mul/simple.rs :: add_signed_mul_same_len
// RESOURCE contract: no scratch memory.
pub fn add_signed_mul_same_len(
    c: &mut [Word],
    sign: Sign,
    a: &[Word],
    b: &[Word],
    memory: &mut Memory,
) -> SignedWord
/*@
    requires a@.len() == b@.len(), old(c)@.len() == a@.len() + b@.len(), old(c)@.len() <= usize::MAX,
    ensures final(c)@.len() == old(c)@.len(), -1 <= ret <= 1,
        mem_same(*final(memory), *old(memory)),
@*/
{
    debug_assert!(a.len() == b.len() && c.len() == a.len() + b.len());
    debug_assert!(b.len() <= MAX_SMALLER_LEN);
    add_signed_mul_chunk(c, sign, a, b, memory)
}
