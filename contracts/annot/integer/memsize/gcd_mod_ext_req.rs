//@ item: integer/src/gcd/mod.rs :: memory_requirement_ext_exact
pub fn memory_requirement_ext_exact(lhs_len: usize, rhs_len: usize) -> Layout
/*@
    requires lhs_len >= rhs_len && rhs_len >= 2, lhs_len <= usize::MAX / 16,
    ensures lay_ok(ret, ext_need(lhs_len as int)), lay_wordish(ret),
@*/
{
    lehmer::memory_requirement_ext_up_to(lhs_len, rhs_len)
}
