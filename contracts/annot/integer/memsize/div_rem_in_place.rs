//@ item: integer/src/div/mod.rs :: div_rem_in_place
// RESOURCE contract of the division dispatcher: div_need(|lhs|, |rhs|) Words (none on the schoolbook branch).
pub(crate) fn div_rem_in_place(
    lhs: &mut [Word],
    rhs: &[Word],
    fast_div_rhs_top: FastDivideNormalized2,
    memory: &mut Memory,
) -> bool
/*@
    requires
        rhs@.len() <= old(lhs)@.len() <= usize::MAX, div_prepared(rhs@, fast_div_rhs_top),
        2 * rhs@.len() <= usize::MAX,
        3 * rhs@.len() + 4 <= SignedWord::MAX,
        mem_ok(*old(memory), div_need(old(lhs)@.len() as int, rhs@.len() as int)),
    ensures final(lhs)@.len() == old(lhs)@.len(),
        mem_same(*final(memory), *old(memory)),
@*/
{
    debug_assert!(lhs.len() >= rhs.len() && rhs.len() >= 2);

    if rhs.len() <= THRESHOLD_SIMPLE || lhs.len() - rhs.len() <= THRESHOLD_SIMPLE {
        simple::div_rem_in_place(lhs, rhs, fast_div_rhs_top)
    } else {
        divide_conquer::div_rem_in_place(lhs, rhs, fast_div_rhs_top, memory)
    }
}
