//@ item: integer/src/mul/karatsuba.rs :: memory_requirement_up_to
// The documented closed form (karatsuba.rs:35 "Use 2n + 2 ceil log_2 n") as a Word-array layout.
// n <= usize::MAX / 8 from the call sites (n is the length of a Word slice: len * size_of::<Word>() <= isize::MAX).
pub fn memory_requirement_up_to(n: usize) -> Layout
/*@
    requires 1 <= n <= usize::MAX / 8,
    ensures ret.sz() == wbytes() * kformula(n as int), ret.al() == wbytes(),
@*/
{
    /*@ proof { lemma_word_layout(); lemma_mn_clog2_u64(n as int); } @*/
    // Use 2n + 2 ceil log_2 n.
    let num_words = 2 * n + 2 * (math::ceil_log2(n) as usize);
    memory::array_layout::<Word>(num_words)
}
