//@ item: integer/src/mul/toom_3.rs :: memory_requirement_up_to
// The documented closed form (toom_3.rs:51 "So we use 4n + 13 ceil log_2 n") as a Word-array layout.
pub fn memory_requirement_up_to(n: usize) -> Layout
/*@
    requires 1 <= n <= usize::MAX / 8,
    ensures ret.sz() == wbytes() * tformula(n as int), ret.al() == wbytes(),
@*/
{
    /*@ proof { lemma_word_layout(); lemma_mn_clog2_u64(n as int); } @*/
    // Note: the recurence also works when we transition to Karatsuba, because
    // Karatsuba memory requirements are Smaller.
    let num_words = 4 * n + 13 * (math::ceil_log2(n) as usize);
    memory::array_layout::<Word>(num_words)
}
