//@ item: integer/src/div/divide_conquer.rs :: div_rem_in_place
// RESOURCE contract: dc_need(|lhs|, |rhs|) = gneed(min(floor(n / 2), |lhs| - n)) Words suffice for all blocks.
pub(crate) fn div_rem_in_place(
    lhs: &mut [Word],
    rhs: &[Word],
    fast_div_rhs_top: FastDivideNormalized2,
    memory: &mut Memory,
) -> bool
/*@
    requires
        old(lhs)@.len() > rhs@.len() + 32, rhs@.len() > 32,     // div::THRESHOLD_SIMPLE (the real constant is in the body assertions)
        old(lhs)@.len() <= usize::MAX, div_prepared(rhs@, fast_div_rhs_top),
        2 * rhs@.len() <= usize::MAX,
        3 * rhs@.len() + 4 <= SignedWord::MAX,
        mem_ok(*old(memory), dc_need(old(lhs)@.len() as int, rhs@.len() as int)),
    ensures final(lhs)@.len() == old(lhs)@.len(),
        mem_same(*final(memory), *old(memory)),
@*/
{
    assert!(lhs.len() > rhs.len() + div::THRESHOLD_SIMPLE && rhs.len() > div::THRESHOLD_SIMPLE);

    let mut overflow = false;
    let n = rhs.len();
    let mut m = lhs.len();
    assert!(n > div::THRESHOLD_SIMPLE && m >= n);
    /*@ let ghost s0 = memory.start(); let ghost e0 = memory.end(); let ghost len = lhs@.len(); @*/
    while m >= 2 * n
    /*@
        invariant n == rhs@.len(), n > 32, n <= m <= len, lhs@.len() == len, len <= usize::MAX,
            2 * n <= usize::MAX, 3 * n + 4 <= SignedWord::MAX,
            m == len || len >= 2 * n,
            div_prepared(rhs@, fast_div_rhs_top),
            memory.start() == s0, memory.end() == e0,
            mem_ok(*memory, dc_need(len as int, n as int)),
            final(old(lhs))@.len() == final(lhs)@.len(),
        decreases m
    @*/
    {
        let o = div_rem_in_place_same_len(&mut lhs[m - 2 * n..m], rhs, fast_div_rhs_top, memory);
        if o {
            debug_assert!(m == lhs.len());
            overflow = true;
        }
        m -= n;
    }
    if m > n {
        /*@ proof { lemma_mn_gneed_mono(imin(m as int - n as int, n as int / 2), imin(n as int / 2, len as int - n as int)); } @*/
        let o = div_rem_in_place_small_quotient(&mut lhs[..m], rhs, fast_div_rhs_top, memory);
        if o {
            debug_assert!(m == lhs.len());
            overflow = true;
        }
    }
    overflow
}
