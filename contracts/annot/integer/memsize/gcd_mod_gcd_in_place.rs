//@ item: integer/src/gcd/mod.rs :: gcd_in_place
// FUNCTIONAL + RESOURCE contract of the wrapper (see annot/integer/memsize/gcd_in_place.rs)
pub fn gcd_in_place(lhs: &mut [Word], rhs: &mut [Word], memory: &mut Memory) -> (usize, bool)
/*@
    requires
        // from the call site (gcd_ops.rs gcd_large: two `Large` operands, lhs > rhs)
        2 <= old(rhs)@.len() <= old(lhs)@.len(),
        old(lhs)@[old(lhs)@.len() - 1] != 0, old(rhs)@[old(rhs)@.len() - 1] != 0,
        val(old(lhs)@) > val(old(rhs)@),
        2 * old(lhs)@.len() <= usize::MAX,       // true of every real slice of words
        3 * old(rhs)@.len() + 4 <= SignedWord::MAX,
        mem_ok(*old(memory), gneed(old(rhs)@.len() as int / 2)),
    ensures
        mem_same(*final(memory), *old(memory)),
        final(lhs)@.len() == old(lhs)@.len(), final(rhs)@.len() == old(rhs)@.len(),
        // C12: the gcd (by divisibility) is left in the low words of rhs (flag set) or lhs
        ret.1 ==> ret.0 <= old(rhs)@.len() && gcdo_is_gcd(val(final(rhs)@.subrange(0, ret.0 as int)), val(old(lhs)@), val(old(rhs)@)),
        !ret.1 ==> ret.0 <= old(lhs)@.len() && gcdo_is_gcd(val(final(lhs)@.subrange(0, ret.0 as int)), val(old(lhs)@), val(old(rhs)@)),
@*/
{
    debug_assert!(
        lhs.last().unwrap() != &0 && rhs.last().unwrap() != &0,
        "leading zeros are not allowed!"
    );

    lehmer::gcd_in_place(lhs, rhs, memory)
}
