//@ item: integer/src/div/divide_conquer.rs :: div_rem_in_place
pub(crate) fn div_rem_in_place(
    lhs: &mut [Word],
    rhs: &[Word],
    fast_div_rhs_top: FastDivideNormalized2,
    memory: &mut Memory,
) -> bool
/*@
    requires
        // the function's own run-time assertion: both the divisor and the quotient are above the schoolbook threshold
        old(lhs)@.len() > rhs@.len() + div::THRESHOLD_SIMPLE, rhs@.len() > div::THRESHOLD_SIMPLE,
        old(lhs)@.len() <= usize::MAX, div_prepared(rhs@, fast_div_rhs_top),
        // `2 * n` is computed in usize: true of every real slice of words (a slice never exceeds isize::MAX bytes)
        2 * rhs@.len() <= usize::MAX,
    ensures div_post(old(lhs)@, final(lhs)@, rhs@, ret),
@*/
{
    assert!(lhs.len() > rhs.len() + div::THRESHOLD_SIMPLE && rhs.len() > div::THRESHOLD_SIMPLE);

    let mut overflow = false;
    let n = rhs.len();
    let mut m = lhs.len();
    assert!(n > div::THRESHOLD_SIMPLE && m >= n);
    /*@
    let ghost l0 = lhs@;
    let ghost len = m as int;
    let ghost ni = n as int;
    let ghost rr = val(rhs@);
    let ghost a = val(l0);
    proof {
        assert(l0.subrange(len, len).len() == 0);
        assert(val(l0.subrange(len, len)) == 0);
        assert(pw(0) == 1);
        assert(l0.subrange(0, len) =~= l0);
        assert(((0 + b2i(false) * pw(0)) * pw(len - ni)) * rr == 0) by (nonlinear_arith) requires b2i(false) == 0;
    }
    @*/
    while m >= 2 * n
    /*@
        invariant
            n as int == ni, rhs@.len() == ni, ni > div::THRESHOLD_SIMPLE, 2 * ni <= usize::MAX, lhs@.len() == len, len <= usize::MAX, ni <= m <= len,
            len == l0.len(), rr == val(rhs@), a == val(l0),
            div_prepared(rhs@, fast_div_rhs_top),
            a == ((val(lhs@.subrange(m as int, len)) + b2i(overflow) * pw(len - m)) * pw(m - ni)) * rr
                + val(lhs@.subrange(0, m as int)),
            m < len ==> val(lhs@.subrange(m - ni, m as int)) < rr,
            m < len ==> overflow == (val(l0.subrange(len - ni, len)) >= rr),
            m == len ==> !overflow && lhs@ == l0,
        decreases m
    @*/
    {
        /*@ let ghost l = lhs@; let ghost ov = overflow; let ghost mi = m as int; @*/
        let o = div_rem_in_place_same_len(&mut lhs[m - 2 * n..m], rhs, fast_div_rhs_top, memory);
        /*@ proof {
            lemma_dc_outer_seq(a, l, lhs@, rhs@, o, ov, mi - 2 * ni, mi, ni);
        } @*/
        if o {
            debug_assert!(m == lhs.len());
            overflow = true;
        }
        m -= n;
    }
    /*@ let ghost l = lhs@; let ghost ov = overflow; let ghost mi = m as int; @*/
    if m > n {
        let o = div_rem_in_place_small_quotient(&mut lhs[..m], rhs, fast_div_rhs_top, memory);
        /*@ proof {
            lemma_dc_outer_seq(a, l, lhs@, rhs@, o, ov, 0, mi, ni);
        } @*/
        if o {
            debug_assert!(m == lhs.len());
            overflow = true;
        }
    }
    /*@ proof {
        assert(pw(0) == 1);
        let q = val(lhs@.subrange(ni, len)) + b2i(overflow) * pw(len - ni);
        assert((q * pw(0)) * rr == q * rr) by (nonlinear_arith) requires pw(0) == 1;
        assert(lhs@.subrange(ni - ni, ni) =~= lhs@.subrange(0, ni));
    } @*/
    overflow
}
