//@ item: integer/src/div/divide_conquer.rs :: div_rem_in_place
pub(crate) fn div_rem_in_place(
    lhs: &mut [Word],
    rhs: &[Word],
    fast_div_rhs_top: FastDivideNormalized2,
    memory: &mut Memory,
) -> bool
/*@
    requires
        // the function's own run-time assertion: both the divisor and the quotient are above the schoolbook threshold
        old(lhs)@.len() > rhs@.len() + div::THRESHOLD_SIMPLE, rhs@.len() > div::THRESHOLD_SIMPLE,
        old(lhs)@.len() <= usize::MAX, div_prepared(rhs@, fast_div_rhs_top),
        // `2 * n` is computed in usize: true of every real slice of words (a slice never exceeds isize::MAX bytes)
        2 * rhs@.len() <= usize::MAX,
    ensures div_post(old(lhs)@, final(lhs)@, rhs@, ret),
@*/
{
    assert!(lhs.len() > rhs.len() + div::THRESHOLD_SIMPLE && rhs.len() > div::THRESHOLD_SIMPLE);

    let mut overflow = false;
    let n = rhs.len();
    let mut m = lhs.len();
    assert!(n > div::THRESHOLD_SIMPLE && m >= n);
    /*@
    let ghost l0 = lhs@;
    let ghost len = m as int;
    let ghost ni = n as int;
    proof { dc_outer::lemma_init(l0, rhs@); }
    @*/
    while m >= 2 * n
    /*@
        invariant
            n as int == ni, rhs@.len() == ni, ni > div::THRESHOLD_SIMPLE, 2 * ni <= usize::MAX, lhs@.len() == len,
            len <= usize::MAX, ni <= m <= len, len == l0.len(),
            div_prepared(rhs@, fast_div_rhs_top),
            dc_outer::inv(l0, lhs@, rhs@, overflow, m as int),
        decreases m
    @*/
    {
        /*@ let ghost l = lhs@; let ghost ov = overflow; let ghost mi = m as int; @*/
        let o = div_rem_in_place_same_len(&mut lhs[m - 2 * n..m], rhs, fast_div_rhs_top, memory);
        /*@ proof { dc_outer::lemma_step(l0, l, lhs@, rhs@, o, ov, mi - 2 * ni, mi); } @*/
        if o {
            debug_assert!(m == lhs.len());
            overflow = true;
        }
        m -= n;
    }
    /*@ let ghost l = lhs@; let ghost ov = overflow; let ghost mi = m as int; @*/
    if m > n {
        let o = div_rem_in_place_small_quotient(&mut lhs[..m], rhs, fast_div_rhs_top, memory);
        /*@ proof { dc_outer::lemma_step(l0, l, lhs@, rhs@, o, ov, 0, mi); } @*/
        if o {
            debug_assert!(m == lhs.len());
            overflow = true;
        }
    }
    /*@ proof { dc_outer::lemma_fin(l0, lhs@, rhs@, overflow); } @*/
    overflow
}
