//@ item: integer/src/div/divide_conquer.rs :: div_rem_in_place_small_quotient
fn div_rem_in_place_small_quotient(
    lhs: &mut [Word],
    rhs: &[Word],
    fast_div_rhs_top: FastDivideNormalized2,
    memory: &mut Memory,
) -> bool
/*@
    requires 2 <= rhs@.len() <= old(lhs)@.len() <= usize::MAX, old(lhs)@.len() - rhs@.len() < rhs@.len(),
        div_prepared(rhs@, fast_div_rhs_top),
    ensures div_post(old(lhs)@, final(lhs)@, rhs@, ret),
    decreases rhs@.len(), 0int
@*/
{
    let n = rhs.len();
    assert!(n >= 2 && lhs.len() >= n);
    let m = lhs.len() - n;
    assert!(m < n);
    if m <= div::THRESHOLD_SIMPLE {
        return div::simple::div_rem_in_place(lhs, rhs, fast_div_rhs_top);
    }
    /*@
    let ghost l0 = lhs@;
    let ghost ni = n as int;
    let ghost mi = m as int;
    let ghost k = ni - mi;
    let ghost rr = val(rhs@);
    let ghost rhi = rhs@.subrange(k, ni);
    let ghost rlo = rhs@.subrange(0, k);
    let ghost s0 = l0.subrange(k, ni + mi);
    let ghost a = val(l0);
    let ghost bm = pw(mi);
    let ghost bn = pw(ni);
    let ghost p = pw(k);
    proof {
        lemma_dc_split(rhs@, k);
        lemma_dc_split(l0, k);
        lemma_dc_split(l0, mi);
        lemma_pw_add(mi, k);
        lemma_pw_add(mi, ni);
        lemma_pw_pos(mi); lemma_pw_pos(ni); lemma_pw_pos(k);
        assert(rhi[mi - 2] == rhs@[ni - 2] && rhi[mi - 1] == rhs@[ni - 1]);
        lemma_ds_normalized_half(rhs@, fast_div_rhs_top.divisor());
        lemma_valn_bound(l0, ni + mi);
        assert(l0.subrange(mi, ni + mi) =~= l0.subrange(l0.len() - ni, l0.len() as int));
    }
    @*/
    // Use top m words of the divisor to get a quotient approximation. It may be too large by at most 2.
    // Quotient is in lhs[n..], remainder in lhs[..n].
    // This is a 2m / m division.
    let mut q_overflow: SignedWord =
        div_rem_in_place_same_len(&mut lhs[n - m..], &rhs[n - m..], fast_div_rhs_top, memory)
            .into();
    /*@
    let ghost l1 = lhs@;
    let ghost s1 = l1.subrange(k, ni + mi);
    let ghost qo0 = q_overflow as int;
    proof {
        assert(s1.subrange(mi, 2 * mi) =~= l1.subrange(ni, ni + mi));
        assert(s1.subrange(0, mi) =~= l1.subrange(k, ni));
        assert(l1.subrange(0, k) =~= l0.subrange(0, k));
        lemma_dc_split(l1.subrange(0, ni), k);
        assert(l1.subrange(0, ni).subrange(0, k) =~= l1.subrange(0, k));
        assert(l1.subrange(0, ni).subrange(k, ni) =~= l1.subrange(k, ni));
        lemma_valn_bound(l1.subrange(ni, ni + mi), mi);
    }
    @*/
    let (rem, q) = lhs.split_at_mut(n);
    /*@
    let ghost rem1 = val(rem@);
    let ghost q1 = val(q@);
    let ghost qh = q1 + qo0 * bm;
    proof {
        assert(rem@ =~= l1.subrange(0, ni));
        assert(q@ =~= l1.subrange(ni, ni + mi));
        assert(qo0 * bm >= 0) by (nonlinear_arith) requires qo0 >= 0, bm >= 1;
        lemma_dc_sq_setup(a, val(l0.subrange(0, k)), val(s0), p, qh, val(rhi), val(l1.subrange(k, ni)), rem1, rr, val(rlo));
        lemma_valn_bound(rlo, k);
        lemma_valn_bound(rem@, ni);
        assert(q1 * val(rlo) < bm * p) by (nonlinear_arith) requires 0 <= q1 < bm, 0 <= val(rlo) < p;
        assert(q1 * val(rlo) >= 0) by (nonlinear_arith) requires 0 <= q1, 0 <= val(rlo);
    }
    @*/

    // Subtract q * (the rest of rhs) from rem.
    // The multiplication here is m words by * (n-m) words.
    let mut rem_overflow: SignedWord = mul::add_signed_mul(rem, Negative, q, &rhs[..n - m], memory);
    /*@
    let ghost rem2 = rem@;
    let ghost ro2 = rem_overflow as int;
    proof {
        lemma_valn_bound(rem2, ni);
        assert((-1) * (q1 * val(rlo)) == -(q1 * val(rlo)));
        assert((-1) * bn == -bn && 1 * bn == bn);
        lemma_dc_ov_bounds(val(rem2), ro2, bn, rem1 - q1 * val(rlo), -1, 1);
        lemma_dc_split(rem2, mi);
    }
    @*/
    if q_overflow != 0 {
        rem_overflow -= SignedWord::from(add::sub_same_len_in_place(&mut rem[m..], &rhs[..n - m]));
    }
    /*@
    proof {
        let ro3 = rem_overflow as int;
        lemma_dc_split(rem@, mi);
        assert(rem@.subrange(0, mi) =~= rem2.subrange(0, mi));
        if qo0 != 0 {
            lemma_dc_sq_sub(val(rem2), val(rem@), val(rem2.subrange(0, mi)), val(rem2.subrange(mi, ni)),
                val(rem@.subrange(mi, ni)), ro2 - ro3, val(rlo), bm, p, bn);
            assert(qo0 * bm == bm) by (nonlinear_arith) requires qo0 == 1;
            assert((q1 + bm) * val(rlo) == q1 * val(rlo) + bm * val(rlo)) by (nonlinear_arith);
            assert((ro2 - (ro2 - ro3)) * bn == ro2 * bn - (ro2 - ro3) * bn) by (nonlinear_arith);
        } else {
            assert(rem@ =~= rem2);
            assert(qo0 * bm == 0) by (nonlinear_arith) requires qo0 == 0;
        }
        assert(val(rem@) + ro3 * bn == rem1 - qh * val(rlo));
        lemma_valn_bound(q@, mi);
        lemma_valn_bound(rem@, ni);
    }
    @*/

    // If the remainder overflowed, adjust q and rem.
    while rem_overflow < 0
    /*@
        invariant
            rem@.len() == ni, q@.len() == mi, rhs@.len() == ni, ni <= usize::MAX, bn == pw(ni), bm == pw(mi), rr == val(rhs@),
            bn >= 1, bm >= 1, 0 < rr < bn,
            a >= 0,
            a == (val(q@) + (q_overflow as int) * bm) * rr + val(rem@) + (rem_overflow as int) * bn,
            val(rem@) + (rem_overflow as int) * bn < rr,
            -3 <= (rem_overflow as int) <= 1, -1 <= q_overflow as int <= 1,
        decreases -(val(rem@) + (rem_overflow as int) * bn)
    @*/
    {
        /*@
        let ghost remv = val(rem@); let ghost qv = val(q@); let ghost ro = rem_overflow as int; let ghost qo = q_overflow as int;
        proof {
            lemma_valn_bound(rem@, ni);
            lemma_valn_bound(q@, mi);
            // the running value is negative, so the quotient so far is positive: q_overflow >= 0
            assert(remv + ro * bn < 0) by (nonlinear_arith) requires remv < bn, ro <= -1, bn >= 1;
            assert(qv + qo * bm > 0) by (nonlinear_arith)
                requires (qv + qo * bm) * rr == a - (remv + ro * bn), a >= 0, remv + ro * bn < 0, rr > 0;
            assert(qo >= 0) by (nonlinear_arith) requires qv + qo * bm > 0, qv < bm, bm >= 1;
        }
        @*/
        rem_overflow += SignedWord::from(add::add_same_len_in_place(rem, rhs));
        q_overflow -= SignedWord::from(add::sub_one_in_place(q));
        /*@ proof {
            lemma_dc_correct_step(a, qv, qo, remv, ro, val(q@), q_overflow as int, val(rem@), rem_overflow as int,
                rem_overflow as int - ro, qo - q_overflow as int, rr, bm, bn);
            assert(((rem_overflow as int) - ro) * bn + ro * bn == (rem_overflow as int) * bn) by (nonlinear_arith);
        } @*/
    }
    /*@
    proof {
        lemma_valn_bound(rem@, ni);
        lemma_valn_bound(q@, mi);
        lemma_dc_sq_exit(a, val(q@), q_overflow as int, val(rem@), rem_overflow as int, rr, bm, bn,
            val(l0.subrange(mi, ni + mi)), val(l0.subrange(0, mi)));
        assert(0 <= q_overflow <= 1);
    }
    @*/

    debug_assert!(rem_overflow == 0 && (0..=1).contains(&q_overflow));
    q_overflow != 0
    /*@ proof {
        assert(lhs@.subrange(0, ni) =~= rem@);
        assert(lhs@.subrange(ni, ni + mi) =~= q@);
        assert(b2i(ret) * bm == (q_overflow as int) * bm) by (nonlinear_arith) requires b2i(ret) == q_overflow as int;
    } @*/
}
