//@ item: integer/src/div/divide_conquer.rs :: div_rem_in_place_small_quotient
fn div_rem_in_place_small_quotient(
    lhs: &mut [Word],
    rhs: &[Word],
    fast_div_rhs_top: FastDivideNormalized2,
    memory: &mut Memory,
) -> bool
/*@
    requires 2 <= rhs@.len() <= old(lhs)@.len() <= usize::MAX, old(lhs)@.len() - rhs@.len() < rhs@.len(),
        div_prepared(rhs@, fast_div_rhs_top),
    ensures div_post(old(lhs)@, final(lhs)@, rhs@, ret),
    decreases rhs@.len(), 0int
@*/
{
    /*@ proof { reveal(div_post); } @*/
    let n = rhs.len();
    assert!(n >= 2 && lhs.len() >= n);
    let m = lhs.len() - n;
    assert!(m < n);
    if m <= div::THRESHOLD_SIMPLE {
        return div::simple::div_rem_in_place(lhs, rhs, fast_div_rhs_top);
    }
    /*@
    let ghost l0 = lhs@;
    let ghost ni = n as int;
    let ghost mi = m as int;
    let ghost rr = val(rhs@);
    let ghost a = val(l0);
    let ghost bm = pw(mi);
    let ghost bn = pw(ni);
    let ghost rlo = val(rhs@.subrange(0, ni - mi));
    proof {
        let rhi = rhs@.subrange(ni - mi, ni);
        assert(rhi[mi - 2] == rhs@[ni - 2] && rhi[mi - 1] == rhs@[ni - 1]);
        lemma_ds_normalized_half(rhs@, fast_div_rhs_top.divisor());
        lemma_valn_bound(l0, ni + mi);
    }
    @*/
    // Use top m words of the divisor to get a quotient approximation. It may be too large by at most 2.
    // Quotient is in lhs[n..], remainder in lhs[..n].
    // This is a 2m / m division.
    let mut q_overflow: SignedWord =
        div_rem_in_place_same_len(&mut lhs[n - m..], &rhs[n - m..], fast_div_rhs_top, memory)
            .into();
    /*@
    let ghost l1 = lhs@;
    let ghost qo0 = q_overflow as int;
    proof { lemma_dc_sq_rec(l0, l1, rhs@, qo0 != 0, ni, mi); }
    @*/
    let (rem, q) = lhs.split_at_mut(n);
    /*@
    let ghost rem1 = val(rem@);
    let ghost q1 = val(q@);
    proof {
        assert(rem@ =~= l1.subrange(0, ni));
        assert(q@ =~= l1.subrange(ni, ni + mi));
    }
    @*/

    // Subtract q * (the rest of rhs) from rem.
    // The multiplication here is m words by * (n-m) words.
    let mut rem_overflow: SignedWord = mul::add_signed_mul(rem, Negative, q, &rhs[..n - m], memory);
    /*@
    let ghost rem2 = rem@;
    let ghost ro2 = rem_overflow as int;
    proof {
        lemma_valn_bound(rem2, ni);
        assert((-1) * (q1 * rlo) == -(q1 * rlo));
        lemma_dc_sq_mul_bounds(rem1, q1, rlo, bm, pw(ni - mi), bn, val(rem2), ro2);
    }
    @*/
    if q_overflow != 0 {
        rem_overflow -= SignedWord::from(add::sub_same_len_in_place(&mut rem[m..], &rhs[..n - m]));
    }
    /*@
    proof {
        let ro3 = rem_overflow as int;
        if qo0 != 0 {
            lemma_dc_sq_sub_seq(rem2, rem@, rlo, ro2 - ro3, ni, mi);
        } else {
            assert(rem@ =~= rem2);
        }
        lemma_dc_sq_inv(rem1, q1, qo0, rlo, bm, bn, val(rem2), ro2, val(rem@), ro3, ro2 - ro3);
        let qh = q1 + qo0 * bm;
        assert(b2i(qo0 != 0) == qo0);
        assert(qh == val(l1.subrange(ni, ni + mi)) + b2i(qo0 != 0) * pw(mi));
        assert(a == qh * rr + (rem1 - qh * rlo));
        assert(val(rem@) + ro3 * bn == rem1 - qh * rlo);
        assert(a == (val(q@) + (q_overflow as int) * bm) * rr + val(rem@) + (rem_overflow as int) * bn);
        assert(val(rem@) + (rem_overflow as int) * bn < rr);
    }
    @*/

    // If the remainder overflowed, adjust q and rem.
    while rem_overflow < 0
    /*@
        invariant
            rem@.len() == ni, q@.len() == mi, rhs@.len() == ni, ni <= usize::MAX, mi <= usize::MAX, bn == pw(ni), bm == pw(mi), rr == val(rhs@),
            bn >= 1, bm >= 1, 0 < rr < bn,
            a >= 0,
            a == (val(q@) + (q_overflow as int) * bm) * rr + val(rem@) + (rem_overflow as int) * bn,
            val(rem@) + (rem_overflow as int) * bn < rr,
            -3 <= (rem_overflow as int) <= 1, -1 <= q_overflow as int <= 1,
        decreases (if val(rem@) + (rem_overflow as int) * bn < 0 { -(val(rem@) + (rem_overflow as int) * bn) } else { 0 })
    @*/
    {
        /*@
        let ghost remv = val(rem@); let ghost qv = val(q@); let ghost ro = rem_overflow as int; let ghost qo = q_overflow as int;
        proof {
            lemma_valn_bound(rem@, ni);
            lemma_valn_bound(q@, mi);
            lemma_dc_sq_loop_pos(a, qv, qo, remv, ro, rr, bm, bn);
        }
        @*/
        rem_overflow += SignedWord::from(add::add_same_len_in_place(rem, rhs));
        q_overflow -= SignedWord::from(add::sub_one_in_place(q));
        /*@ proof {
            lemma_dc_correct_step(a, qv, qo, remv, ro, val(q@), q_overflow as int, val(rem@), rem_overflow as int,
                rem_overflow as int - ro, qo - q_overflow as int, rr, bm, bn);
            assert(((rem_overflow as int) - ro) * bn + ro * bn == (rem_overflow as int) * bn) by (nonlinear_arith);
        } @*/
    }
    /*@
    proof {
        lemma_valn_bound(rem@, ni);
        lemma_valn_bound(q@, mi);
        lemma_dc_split(l0, mi);
        assert(l0.subrange(mi, l0.len() as int) =~= l0.subrange(mi, ni + mi));
        lemma_dc_sq_exit(a, val(q@), q_overflow as int, val(rem@), rem_overflow as int, rr, bm, bn,
            val(l0.subrange(mi, ni + mi)), val(l0.subrange(0, mi)));
        assert(0 <= q_overflow <= 1);
    }
    @*/

    debug_assert!(rem_overflow == 0 && (0..=1).contains(&q_overflow));
    q_overflow != 0
    /*@ proof {
        assert(lhs@.subrange(0, ni) =~= rem@);
        assert(lhs@.subrange(ni, ni + mi) =~= q@);
        lemma_dc_sq_post(l0, lhs@, rhs@, ret, ni, mi, q_overflow as int);
    } @*/
}
