//@ item: integer/src/div/divide_conquer.rs :: div_rem_in_place_same_len
fn div_rem_in_place_same_len(
    lhs: &mut [Word],
    rhs: &[Word],
    fast_div_rhs_top: FastDivideNormalized2,
    memory: &mut Memory,
) -> bool
/*@
    requires rhs@.len() > div::THRESHOLD_SIMPLE, old(lhs)@.len() == 2 * rhs@.len(), old(lhs)@.len() <= usize::MAX,
        div_prepared(rhs@, fast_div_rhs_top),
    ensures div_post(old(lhs)@, final(lhs)@, rhs@, ret),
    decreases rhs@.len(), 1int
@*/
{
    /*@ proof { reveal(div_post); } @*/
    let n = rhs.len();
    assert!(n > div::THRESHOLD_SIMPLE && lhs.len() == 2 * n);
    // To guarantee n_lo >= 2.
    const_assert!(div::THRESHOLD_SIMPLE >= 3);
    let n_lo = n / 2;
    /*@
    let ghost l0 = lhs@;
    let ghost ni = n as int;
    let ghost lo = n_lo as int;
    let ghost hi = ni - lo;
    let ghost rr = val(rhs@);
    proof {
        lemma_dc_split(l0, lo);
        lemma_ds_normalized_half(rhs@, fast_div_rhs_top.divisor());
    }
    @*/

    // Divide lhs[n_lo..] by rhs, putting quotient in lhs[n+n_lo..] and remainder in lhs[n_lo..n+n_lo].
    // This is a 3n/2n division.
    let overflow = div_rem_in_place_small_quotient(&mut lhs[n_lo..], rhs, fast_div_rhs_top, memory);
    /*@
    let ghost l1 = lhs@;
    let ghost t0 = l0.subrange(lo, 2 * ni);
    let ghost t1 = l1.subrange(lo, 2 * ni);
    proof {
        assert(l1.subrange(0, lo) =~= l0.subrange(0, lo));
        assert(t0.subrange(t0.len() - ni, t0.len() as int) =~= l0.subrange(ni, 2 * ni));
        assert(t1.subrange(0, ni) =~= l1.subrange(lo, ni + lo));
        assert(t1.subrange(ni, ni + hi) =~= l1.subrange(ni + lo, 2 * ni));
        let u0 = l1.subrange(0, ni + lo);
        assert(u0.subrange(u0.len() - ni, u0.len() as int) =~= l1.subrange(lo, ni + lo));
        lemma_dc_split(u0, lo);
        assert(u0.subrange(0, lo) =~= l0.subrange(0, lo));
        assert(u0.subrange(lo, ni + lo) =~= l1.subrange(lo, ni + lo));
    }
    @*/

    // Divide lhs[..n+n_lo] by rhs, putting the rest of the quotient in lhs[n..n+n_lo] and remainder
    // in lhs[..n]. This is also a 3n/2n division.
    let overflow_lo =
        div_rem_in_place_small_quotient(&mut lhs[..n + n_lo], rhs, fast_div_rhs_top, memory);
    /*@ proof {
        let l2 = lhs@;
        let u1 = l2.subrange(0, ni + lo);
        assert(l2.subrange(ni + lo, 2 * ni) =~= l1.subrange(ni + lo, 2 * ni));
        assert(u1.subrange(0, ni) =~= l2.subrange(0, ni));
        assert(u1.subrange(ni, ni + lo) =~= l2.subrange(ni, ni + lo));
        // quotient = [q_lo (n_lo words), q_hi (n - n_lo words)]
        lemma_dc_split(l2.subrange(ni, 2 * ni), lo);
        assert(l2.subrange(ni, 2 * ni).subrange(0, lo) =~= l2.subrange(ni, ni + lo));
        assert(l2.subrange(ni, 2 * ni).subrange(lo, ni) =~= l2.subrange(ni + lo, 2 * ni));
        lemma_pw_add(lo, hi);
        assert(b2i(overflow_lo) * pw(lo) == 0) by (nonlinear_arith) requires b2i(overflow_lo) == 0;
        lemma_dc_same_len(val(l0), val(l0.subrange(0, lo)), val(t0), val(l1.subrange(ni + lo, 2 * ni)), b2i(overflow),
            val(l1.subrange(lo, ni + lo)), val(l2.subrange(ni, ni + lo)), val(l2.subrange(0, ni)), rr, pw(lo), pw(hi), pw(ni));
        assert(l0.subrange(l0.len() - ni, l0.len() as int) =~= l0.subrange(ni, 2 * ni));
    } @*/
    debug_assert!(!overflow_lo);

    overflow
}
