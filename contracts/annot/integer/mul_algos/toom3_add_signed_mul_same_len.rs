//@ item: integer/src/mul/toom_3.rs :: add_signed_mul_same_len
// Toom-Cook-3: c += sign * a * b, |a| == |b| == n >= 16.  A long function (13 accumulations into c, 5 evaluations,
// interpolation): one SMT query of ~25 s (about 2e8 rlimit units), hence the explicit resource limit (3.6x margin).
/*@ #[verifier::spinoff_prover] #[verifier::rlimit(300)] @*/
pub fn add_signed_mul_same_len(
    c: &mut [Word],
    sign: Sign,
    a: &[Word],
    b: &[Word],
    memory: &mut Memory,
) -> SignedWord
/*@
    requires a@.len() == b@.len(), old(c)@.len() == a@.len() + b@.len(), old(c)@.len() <= usize::MAX,
        a@.len() >= MIN_LEN,        // its own debug assertion; the dispatcher only comes here above THRESHOLD_KARATSUBA
    ensures final(c)@.len() == old(c)@.len(), -1 <= ret <= 1,
        val(final(c)@) + (ret as int) * pw(old(c)@.len() as int) == val(old(c)@) + sgn(sign) * (val(a@) * val(b@)),
    decreases a@.len(), 0int       // recursion through the dispatcher: the factor length strictly decreases (checked in unit int_mul_toom3)
@*/
{
    /*@ hide(valn); hide(pw);   // the proof only moves val(..) / pw(..) terms around (lemmas do the unfolding) @*/
    let n = a.len();
    debug_assert!(b.len() == n && c.len() == 2 * n);
    debug_assert!(n >= MIN_LEN);

    /* Brent, Zimmermann, Modern Computer Arithmetic 0.5.9, Algorithm 1.4.
     *
     * We evaluate the polynomials A(x) = a0 + a1*x + a2*x^2, B(x) = b0 + b1*x + b2*x^2
     * at points 0, 1, -1, 2, infinity.
     * Multiplying, this gives us values of V(x) = A(x)*B(x) = c0 + c1*x + c2*x^2 + c3*x^3 + c4*x^4
     * at the same points (using 5 recursive multiplications).
     *
     * Then we interpolate the polynomial coefficients, which gives the following formulas:
     * c_0 = V(0)
     * c_1 = V(1) - t1
     * c_2 = t2 - V(0) - V(inf)
     * c_3 = t1 - t2
     * c_4 = V(inf)
     * where:
     * t1 = (3V(0) + 2V(-1) + V(2))/6 - 2V(inf)
     * t2 = (V(1) + V(-1))/2
     */

    // Split into 3 parts. Note: a2, b2 may be shorter.
    let n3 = (n + 2) / 3;
    let n3_short = n - 2 * n3;

    let (a0, a12) = a.split_at(n3);
    let (a1, a2) = a12.split_at(n3);
    let (b0, b12) = b.split_at(n3);
    let (b1, b2) = b12.split_at(n3);
    /*@
    let ghost ni = n as int; let ghost k = n3 as int; let ghost ks = n3_short as int;
    let ghost va0 = val(a0@); let ghost va1 = val(a1@); let ghost va2 = val(a2@);
    let ghost vb0 = val(b0@); let ghost vb1 = val(b1@); let ghost vb2 = val(b2@);
    let ghost w1 = pw(k); let ghost w2 = pw(2 * k); let ghost w3 = pw(3 * k); let ghost w4 = pw(4 * k);
    let ghost cc1 = pw(3 * k + 2); let ghost cc2 = pw(4 * k + 2); let ghost cc3 = pw(5 * k + 2); let ghost cn = pw(2 * ni);
    let ghost tw = pw(2 * k + 2);    // size of t1 / t2 / c_eval
    let ghost q0 = tc0(va0, va1, va2, vb0, vb1, vb2); let ghost q1 = tc1(va0, va1, va2, vb0, vb1, vb2);
    let ghost q2 = tc2(va0, va1, va2, vb0, vb1, vb2); let ghost q3 = tc3(va0, va1, va2, vb0, vb1, vb2);
    let ghost q4 = tc4(va0, va1, va2, vb0, vb1, vb2);
    let ghost x0 = sgn(sign) * (va0 * vb0);      // sign * V(0)
    let ghost xi = sgn(sign) * (va2 * vb2);      // sign * V(inf)
    let ghost v0 = val(c@);
    let ghost mut v1 = 0int; let ghost mut v2 = 0int; let ghost mut v3 = 0int; let ghost mut v4 = 0int; let ghost mut v5 = 0int;
    let ghost mut vv1 = 0int; let ghost mut x1 = 0int;           // V(1), sign * V(1)
    let ghost mut sa = Positive; let ghost mut sb = Positive; let ghost mut am = 0int; let ghost mut bm = 0int;   // |A(-1)|, |B(-1)| and their signs
    let ghost mut vm = 0int;         // |V(-1)|
    let ghost mut r1 = 0int; let ghost mut r2 = 0int; let ghost mut r3 = 0int; let ghost mut r4 = 0int; let ghost mut r5 = 0int;
    proof {
        assert(6 <= k && 1 <= ks <= k && 5 * k + 2 <= 2 * ni && ks == ni - 2 * k);
        assert(a0@ =~= a@.subrange(0, k)); assert(a1@ =~= a@.subrange(k, 2 * k)); assert(a2@ =~= a@.subrange(2 * k, ni));
        assert(b0@ =~= b@.subrange(0, k)); assert(b1@ =~= b@.subrange(k, 2 * k)); assert(b2@ =~= b@.subrange(2 * k, ni));
        lemma_split3(a@, k); lemma_split3(b@, k);
        lemma_val_bound(a0@); lemma_val_bound(a1@); lemma_val_bound(a2@);
        lemma_val_bound(b0@); lemma_val_bound(b1@); lemma_val_bound(b2@);
        lemma_pw_le(ks, k);
        lemma_toom_coeff_nonneg(va0, va1, va2, vb0, vb1, vb2);
        lemma_toom_evals(va0, va1, va2, vb0, vb1, vb2);
        lemma_pw_add(k, k);
        lemma_pw_plus2(2 * k);
        lemma_val_bound(c@);
    }
    @*/

    let mut carry: SignedWord = 0;
    // Accumulate intermediate carries, we will add them at the end.
    let mut carry_c0: SignedWord = 0; // at 2*n3
    let mut carry_c1: SignedWord = 0; // at 3*n3+2
    let mut carry_c2: SignedWord = 0; // at 4*n3+2
    let mut carry_c3: SignedWord = 0; // at 5*n3+2

    // Evaluate at 0.
    // V(0) = a0 * b0
    // c_0 += V(0)
    // c_2 -= V(0)
    // t1 = 3*V(0)
    let (t1, mut memory) = memory.allocate_slice_fill(2 * n3 + 2, 0);
    {
        let t1_short = &mut t1[..2 * n3];
        /*@ proof { lemma_val_zeros(t1_short@); } @*/
        debug_assert_zero!(mul::add_signed_mul_same_len(t1_short, Positive, a0, b0, &mut memory));
        /*@ proof { lemma_kara_sub_product(t1_short@, a0@, b0@, __zchk2 as int); } @*/
        /*@ let ghost cs0 = c@; @*/
        carry_c0 += add::add_signed_same_len_in_place(&mut c[..2 * n3], sign, t1_short);
        /*@ let ghost cs1 = c@;
        proof {
            v1 = val(cs1); r1 = carry_c0 as int;
            assert(v1 + r1 * w2 == v0 + x0) by {
                lemma_window(cs0, cs1, 0, 2 * k, r1, x0);
                lemma_pw0();
                assert(x0 * pw(0) == x0) by (nonlinear_arith) requires pw(0) == 1;
            }
        } @*/
        carry_c2 += add::add_signed_in_place(&mut c[2 * n3..4 * n3 + 2], -sign, t1_short);
        /*@ proof {
            v2 = val(c@); r2 = carry_c2 as int;
            assert(v2 + r2 * cc2 == v1 + (-x0) * w2) by {
                lemma_sgn_neg(sign, va0 * vb0);
                lemma_window(cs1, c@, 2 * k, 4 * k + 2, r2, -x0);
            }
        } @*/
        t1[2 * n3] = mul::mul_word_in_place(t1_short, 3);
        t1[2 * n3 + 1] = 0;
        /*@ proof {
            assert(val(t1@) == 3 * (va0 * vb0)) by {
                assert(t1@.len() == 2 * k + 2);
                assert(t1@[2 * k + 1] == 0);
                assert(t1@.subrange(0, 2 * k) =~= t1_short@);
                lemma_scaled_top2(t1@, 2 * k, va0 * vb0, 3);
            }
        } @*/
    }

    // Evaluate at 2.
    // a_eval = a0 + 2a1 + 4a2
    // b_eval = b0 + 2b1 + 4b2
    // V(2) = a_eval * b_eval
    // t1 += V(2)
    let (a_eval, mut memory) = memory.allocate_slice_copy_fill(n3 + 1, a0, 0);
    let (b_eval, mut memory) = memory.allocate_slice_copy_fill(n3 + 1, b0, 0);
    {
        /*@ let ghost ae0 = a_eval@; let ghost be0 = b_eval@; let ghost mut mid = a_eval@;
        proof { lemma_val_copy_fill(ae0, a0@); lemma_val_copy_fill(be0, b0@); } @*/
        a_eval[n3] = mul::add_mul_word_same_len_in_place(&mut a_eval[..n3], 2, a1);
        /*@ #[after_rhs] proof { mid = a_eval@; lemma_eval_carry_bound(ae0, mid, k, __rhs0 as int, 2 * va1, 2); } @*/
        /*@ let ghost ae1 = a_eval@;
        proof {
            assert(val(ae1) == va0 + 2 * va1 && ae1[k] <= 2) by { lemma_eval_step(ae0, mid, ae1, k, ae1[k] as int, 2 * va1); }
        } @*/
        a_eval[n3] += mul::add_mul_word_in_place(&mut a_eval[..n3], 4, a2);
        /*@ #[after_rhs] proof { mid = a_eval@; lemma_eval_carry_bound(ae1, mid, k, __rhs1 as int, 4 * va2, 4); } @*/
        /*@ let ghost ae2 = a_eval@;
        proof {
            assert(val(ae2) == va0 + 2 * va1 + 4 * va2) by { lemma_eval_step(ae1, mid, ae2, k, ae2[k] as int - ae1[k] as int, 4 * va2); }
        } @*/
        b_eval[n3] = mul::add_mul_word_same_len_in_place(&mut b_eval[..n3], 2, b1);
        /*@ #[after_rhs] proof { mid = b_eval@; lemma_eval_carry_bound(be0, mid, k, __rhs2 as int, 2 * vb1, 2); } @*/
        /*@ let ghost be1 = b_eval@;
        proof {
            assert(val(be1) == vb0 + 2 * vb1 && be1[k] <= 2) by { lemma_eval_step(be0, mid, be1, k, be1[k] as int, 2 * vb1); }
        } @*/
        b_eval[n3] += mul::add_mul_word_in_place(&mut b_eval[..n3], 4, b2);
        /*@ #[after_rhs] proof { mid = b_eval@; lemma_eval_carry_bound(be1, mid, k, __rhs3 as int, 4 * vb2, 4); } @*/
        /*@ let ghost be2 = b_eval@;
        proof {
            assert(val(be2) == vb0 + 2 * vb1 + 4 * vb2) by { lemma_eval_step(be1, mid, be2, k, be2[k] as int - be1[k] as int, 4 * vb2); }
        } @*/
        /*@ let ghost t1a = t1@; @*/
        debug_assert_zero!(mul::add_signed_mul_same_len(t1, Positive, a_eval, b_eval, &mut memory));
        /*@ proof {
            // t1 = 3 V(0) + V(2) fits 2 n3 + 2 words: V(0) < P^2, V(2) < 49 P^2
            let v2x = val(ae2) * val(be2);
            lemma_eval_prod_bound(val(ae2), val(be2), 7, 7, w1, w2);
            lemma_prod_bound(va0, vb0, w1, w1);
            assert(w2 == w1 * w1);
            assert(val(ae2) < 7 * w1);
            assert(val(be2) < 7 * w1);
            assert(va0 * vb0 < w2);
            assert(v2x < 49 * w2);
            lemma_small_multiple_fits(3 * (va0 * vb0) + v2x, 52, 2 * k);
            lemma_sgn(Positive, v2x);
            lemma_val_bound(t1@);
            lemma_zero_acc_no_carry(val(t1@), 3 * (va0 * vb0) + v2x, __zchk3 as int, tw);
        } @*/
    }

    // Evaluate at inf.
    // V(inf) = a4 * b4
    // c_2 -= V(inf)
    // c_4 += V(inf)
    // t1 -= 12V(inf)
    // Now t1 = 3V(0) + V(2) - 12V(inf)
    {
        let (c_eval, mut memory) = memory.allocate_slice_fill(2 * n3 + 2, 0);
        let c_short = &mut c_eval[..2 * n3_short];
        /*@ proof { lemma_val_zeros(c_short@); } @*/
        debug_assert_zero!(mul::add_signed_mul_same_len(c_short, Positive, a2, b2, &mut memory));
        /*@ proof { lemma_kara_sub_product(c_short@, a2@, b2@, __zchk4 as int); } @*/
        /*@ let ghost cs2 = c@; @*/
        carry_c2 += add::add_signed_in_place(&mut c[2 * n3..4 * n3 + 2], -sign, c_short);
        /*@ let ghost cs3 = c@;
        proof {
            v3 = val(cs3); r3 = carry_c2 as int - r2;
            assert(v3 + r3 * cc2 == v2 + (-xi) * w2) by {
                lemma_sgn_neg(sign, va2 * vb2);
                lemma_window(cs2, cs3, 2 * k, 4 * k + 2, r3, -xi);
            }
        } @*/
        carry += add::add_signed_same_len_in_place(&mut c[4 * n3..], sign, c_short);
        /*@ proof {
            v4 = val(c@); r4 = carry as int;
            assert(v4 + r4 * cn == v3 + xi * w4) by {
                lemma_window(cs3, c@, 4 * k, 2 * ni, r4, xi);
            }
        } @*/
        c_eval[2 * n3_short] = mul::mul_word_in_place(c_short, 12);
        /*@ let ghost t1b = t1@; let ghost ce = c_eval@.subrange(0, 2 * ks + 1);
        proof {
            assert(val(ce) == 12 * (va2 * vb2)) by {
                assert(ce.subrange(0, 2 * ks) =~= c_short@);
                lemma_top_word(ce, 2 * ks);
                let vi = va2 * vb2;
                assert(vi * 12 == 12 * vi);
            }
        } @*/
        // 3V(0) + V(2) - 12V(inf) is never negative
        debug_assert_zero!(add::sub_in_place(t1, &c_eval[..2 * n3_short + 1]));
        /*@ proof {
            // 3 V(0) + V(2) - 12 V(inf) = 4 c0 + 2 c1 + 4 c2 + 8 c3 + 4 c4 >= 0: no borrow
            lemma_val_bound(t1@);
            lemma_no_borrow(val(t1@), val(t1b) - 12 * (va2 * vb2), __zchk5, tw);
        } @*/
    }

    // Sign of V(-1).
    let mut value_neg1_sign;
    let (t2, mut memory) = memory.allocate_slice_fill(2 * n3 + 2, 0);
    {
        // Evaluate at 1.
        // a_eval = a0 + a1 + a2
        // b_eval = b0 + b1 + b2
        // V(1) = a_eval * b_eval
        // c_1 += V(1)
        // t2 = V(1)
        // a02 = a0 + a2
        // b02 = b0 + b2
        // a02 and b02 take the same amount of space as c_eval.
        let (a02, mut memory) = memory.allocate_slice_copy_fill(n3 + 1, a0, 0);
        /*@ let ghost a020 = a02@; let ghost mut mid = a02@; proof { lemma_val_copy_fill(a020, a0@); lemma_val_zeros(t2@); } @*/
        a02[n3] = Word::from(add::add_in_place(&mut a02[..n3], a2));
        /*@ #[after_rhs] proof { mid = a02@; } @*/
        /*@ let ghost a021 = a02@;
        proof {
            assert(val(a021) == va0 + va2 && a021[k] <= 1) by { lemma_eval_step(a020, mid, a021, k, a021[k] as int, va2); }
        } @*/
        a_eval.copy_from_slice(a02);
        /*@ let ghost ae3 = a_eval@; @*/
        a_eval[n3] += Word::from(add::add_same_len_in_place(&mut a_eval[..n3], a1));
        /*@ #[after_rhs] proof { mid = a_eval@; } @*/
        /*@ let ghost ae4 = a_eval@;
        proof {
            assert(val(ae4) == va0 + va1 + va2) by { lemma_eval_step(ae3, mid, ae4, k, ae4[k] as int - ae3[k] as int, va1); }
        } @*/

        let (b02, mut memory) = memory.allocate_slice_copy_fill(n3 + 1, b0, 0);
        /*@ let ghost b020 = b02@; proof { lemma_val_copy_fill(b020, b0@); } @*/
        b02[n3] = Word::from(add::add_in_place(&mut b02[..n3], b2));
        /*@ #[after_rhs] proof { mid = b02@; } @*/
        /*@ let ghost b021 = b02@;
        proof {
            assert(val(b021) == vb0 + vb2 && b021[k] <= 1) by { lemma_eval_step(b020, mid, b021, k, b021[k] as int, vb2); }
        } @*/
        b_eval.copy_from_slice(b02);
        /*@ let ghost be3 = b_eval@; @*/
        b_eval[n3] += Word::from(add::add_same_len_in_place(&mut b_eval[..n3], b1));
        /*@ #[after_rhs] proof { mid = b_eval@; } @*/
        /*@ let ghost be4 = b_eval@;
        proof {
            assert(val(be4) == vb0 + vb1 + vb2) by { lemma_eval_step(be3, mid, be4, k, be4[k] as int - be3[k] as int, vb1); }
        } @*/

        debug_assert_zero!(mul::add_signed_mul_same_len(t2, Positive, a_eval, b_eval, &mut memory));
        /*@ proof {
            // t2 = V(1) < 9 P^2 fits 2 n3 + 2 words
            vv1 = val(ae4) * val(be4);
            assert(val(ae4) < 3 * w1);
            assert(val(be4) < 3 * w1);
            lemma_eval_prod_bound(val(ae4), val(be4), 3, 3, w1, w2);
            assert(vv1 < 9 * w2);
            lemma_small_multiple_fits(vv1, 9, 2 * k);
            lemma_sgn(Positive, vv1);
            lemma_val_bound(t2@);
            lemma_zero_acc_no_carry(val(t2@), vv1, __zchk6 as int, tw);
            x1 = sgn(sign) * vv1;
        } @*/
        /*@ let ghost cs4 = c@; @*/
        carry_c1 += add::add_signed_in_place(&mut c[n3..3 * n3 + 2], sign, t2);
        /*@ proof {
            v5 = val(c@); r5 = carry_c1 as int;
            assert(v5 + r5 * cc1 == v4 + x1 * w1) by {
                lemma_window(cs4, c@, k, 3 * k + 2, r5, x1);
            }
        } @*/

        // Evaluate at -1.
        // a_eval = a02 - a1
        // b_eval = b02 - b1
        // V(-1) = a_eval * b_eval
        // t2 += V(-1)
        // t1 += 2*V(-1)
        // Now t1 = 3V(0) + 2V(-1) + V(2) - 12V(inf),
        //     t2 = V(1) + V(-1).
        a_eval.copy_from_slice(a02);
        value_neg1_sign = add::sub_in_place_with_sign(a_eval, a1);
        /*@ proof { sa = value_neg1_sign; am = val(a_eval@); assert(sgn(sa) * am == va0 + va2 - va1); } @*/
        b_eval.copy_from_slice(b02);
        value_neg1_sign *= add::sub_in_place_with_sign(b_eval, b1);
        /*@ proof {
            sb = sign_mul(sa, value_neg1_sign); bm = val(b_eval@);
            assert(value_neg1_sign == sign_mul(sa, sb));
            assert(sgn(sb) * bm == vb0 + vb2 - vb1);
        } @*/
        // We don't need a02, b02 any more, exit the block so that we can use c_eval again.
    }
    let (c_eval, mut memory) = memory.allocate_slice_fill(2 * (n3 + 1), 0);
    /*@ proof { lemma_val_zeros(c_eval@); } @*/
    debug_assert_zero!(mul::add_signed_mul_same_len(c_eval, Positive, a_eval, b_eval, &mut memory));
    /*@ proof { lemma_kara_sub_product(c_eval@, a_eval@, b_eval@, __zchk7 as int); } @*/
    /*@
    let ghost sm = value_neg1_sign;
    let ghost t1c = val(t1@);
    let ghost t1v = q0 + q2 + q3 + q4;      // (3 V(0) + 2 V(-1) + V(2)) / 6 - 2 V(inf)
    let ghost t2v = q0 + q2 + q4;           // (V(1) + V(-1)) / 2
    proof {
        vm = am * bm;
        // sm * |V(-1)| = V(-1) = c0 - c1 + c2 - c3 + c4
        lemma_kara_diff(sa, sb, am, bm, va0 + va2 - va1, vb0 + vb2 - vb1);
        assert((va0 + va2 - va1) * (vb0 + vb2 - vb1) == q0 - q1 + q2 - q3 + q4);
        assert(sgn(sm) * vm == q0 - q1 + q2 - q3 + q4);
        lemma_sgn(sm, vm);
        assert(vv1 == q0 + q1 + q2 + q3 + q4);
        assert(t1c == 4 * q0 + 2 * q1 + 4 * q2 + 8 * q3 + 4 * q4);
        lemma_small_multiple_fits(6 * vv1, 54, 2 * k);
    }
    @*/
    debug_assert_zero!(add::add_signed_same_len_in_place(t2, value_neg1_sign, c_eval));
    /*@ proof {
        // t2 = V(1) + V(-1) = 2 (c0 + c2 + c4), between 0 and 2 V(1): no carry
        lemma_val_bound(t2@);
        lemma_zero_acc_no_carry(val(t2@), 2 * t2v, __zchk8 as int, tw);
    } @*/
    match value_neg1_sign {
        Positive => /*@ proof {
            // t1 = 3 V(0) + V(2) - 12 V(inf) + 2 V(-1) = 6 (c0 + c2 + c3 + c4) <= 6 V(1): no carry
            lemma_val_bound(t1@);
            lemma_zero_acc_no_carry(val(t1@), 6 * t1v, __zchk9 as int, tw);
        } @*/ debug_assert_zero!(mul::add_mul_word_same_len_in_place(t1, 2, c_eval)),
        Negative => /*@ proof {
            lemma_val_bound(t1@);
            lemma_no_borrow_word(val(t1@), 6 * t1v, __zchk10 as int, tw);
        } @*/ debug_assert_zero!(mul::sub_mul_word_same_len_in_place(t1, 2, c_eval)),
    }
    /*@ proof { assert(val(t1@) == 6 * t1v); assert(val(t2@) == 2 * t2v); lemma_pow2_1(); } @*/

    // t1 /= 6
    // t2 /= 2
    // Now t1 = (3V(0) + 2V(-1) + V(2))/6 - 2V(inf)
    //     t2 = (V(1) + V(-1))/2
    let t1_rem = div::div_by_word_in_place(t1, 6);
    let t2_rem = shift::shr_in_place(t2, 1);
    /*@ proof {
        // both divisions are exact
        assert(val(t1@) == t1v && t1_rem == 0);
        assert(val(t2@) == t2v);
        assert((2 * t2v) % 2 == 0);
        assert(0 * pow2(WORD_BITS - 1) == 0);
    } @*/
    assert_eq!(t1_rem, 0);
    assert_eq!(t2_rem, 0);

    // c1 -= t1
    // c3 += t1
    // c2 += t2
    // c3 -= t2
    /*@
    let ghost xt1 = sgn(sign) * t1v; let ghost xt2 = sgn(sign) * t2v;
    let ghost cs5 = c@;
    proof { lemma_sgn_neg(sign, t1v); lemma_sgn_neg(sign, t2v); }
    @*/
    carry_c1 += add::add_signed_same_len_in_place(&mut c[n3..3 * n3 + 2], -sign, t1);
    /*@ let ghost cs6 = c@; let ghost v6 = val(cs6); let ghost r6 = carry_c1 as int - r5;
    proof { assert(v6 + r6 * cc1 == v5 + (-xt1) * w1) by { lemma_window(cs5, cs6, k, 3 * k + 2, r6, -xt1); } } @*/
    carry_c3 += add::add_signed_same_len_in_place(&mut c[3 * n3..5 * n3 + 2], sign, t1);
    /*@ let ghost cs7 = c@; let ghost v7 = val(cs7); let ghost r7 = carry_c3 as int;
    proof { assert(v7 + r7 * cc3 == v6 + xt1 * w3) by { lemma_window(cs6, cs7, 3 * k, 5 * k + 2, r7, xt1); } } @*/
    carry_c2 += add::add_signed_same_len_in_place(&mut c[2 * n3..4 * n3 + 2], sign, t2);
    /*@ let ghost cs8 = c@; let ghost v8 = val(cs8); let ghost r8 = carry_c2 as int - r2 - r3;
    proof { assert(v8 + r8 * cc2 == v7 + xt2 * w2) by { lemma_window(cs7, cs8, 2 * k, 4 * k + 2, r8, xt2); } } @*/
    carry_c3 += add::add_signed_same_len_in_place(&mut c[3 * n3..5 * n3 + 2], -sign, t2);
    /*@ let ghost cs9 = c@; let ghost v9 = val(cs9); let ghost r9 = carry_c3 as int - r7;
    proof { assert(v9 + r9 * cc3 == v8 + (-xt2) * w3) by { lemma_window(cs8, cs9, 3 * k, 5 * k + 2, r9, -xt2); } } @*/

    // Apply carries.
    carry_c1 += add::add_signed_word_in_place(&mut c[2 * n3..3 * n3 + 2], carry_c0);
    /*@ let ghost cs10 = c@; let ghost v10 = val(cs10); let ghost k1 = carry_c1 as int - r5 - r6;
    proof { assert(v10 + k1 * cc1 == v9 + r1 * w2) by { lemma_window(cs9, cs10, 2 * k, 3 * k + 2, k1, r1); } } @*/
    carry_c2 += add::add_signed_word_in_place(&mut c[3 * n3 + 2..4 * n3 + 2], carry_c1);
    /*@ let ghost cs11 = c@; let ghost v11 = val(cs11); let ghost k2 = carry_c2 as int - r2 - r3 - r8;
    proof { assert(v11 + k2 * cc2 == v10 + (r5 + r6 + k1) * cc1) by { lemma_window(cs10, cs11, 3 * k + 2, 4 * k + 2, k2, r5 + r6 + k1); } } @*/
    carry_c3 += add::add_signed_word_in_place(&mut c[4 * n3 + 2..5 * n3 + 2], carry_c2);
    /*@ let ghost cs12 = c@; let ghost v12 = val(cs12); let ghost k3 = carry_c3 as int - r7 - r9;
    proof {
        assert(v12 + k3 * cc3 == v11 + (r2 + r3 + r8 + k2) * cc2) by { lemma_window(cs11, cs12, 4 * k + 2, 5 * k + 2, k3, r2 + r3 + r8 + k2); }
        // the last window is empty when 5 n3 + 2 == 2 n (n == 16): then the callee returns its carry-in unchanged
        lemma_pw0();
        lemma_val_empty();
        assert forall|r: int| #[trigger] (r * pw(0)) == r by { assert(r * 1 == r); }
        assert(-4 <= carry_c3 <= 4);
    } @*/
    carry += add::add_signed_word_in_place(&mut c[5 * n3 + 2..], carry_c3);
    /*@ proof {
        let k4 = carry as int - r4;
        let v13 = val(c@);
        assert(v13 + k4 * cn == v12 + (r7 + r9 + k3) * cc3) by { lemma_window(cs12, c@, 5 * k + 2, 2 * ni, k4, r7 + r9 + k3); }
        lemma_toom_carries(v0, v1, v2, v3, v4, v5, v6, v7, v8, v9, v10, v11, v12, v13,
            r1, r2, r3, r4, r5, r6, r7, r8, r9, k1, k2, k3, k4, x0, xi, x1, xt1, xt2, w1, w2, w3, w4, cc1, cc2, cc3, cn);
        let ab = val(a@) * val(b@);
        assert(ab == q0 + q1 * w1 + q2 * w2 + q3 * w3 + q4 * w4) by {
            lemma_pw_add(2 * k, k); lemma_pw_add(2 * k, 2 * k);
            lemma_toom_product(val(a@), val(b@), va0, va1, va2, vb0, vb1, vb2, w1, w2, w3, w4);
        }
        lemma_toom_final(sign, ab, q0, q1, q2, q3, q4, va0 * vb0, va2 * vb2, vv1, t1v, t2v, x0, xi, x1, xt1, xt2, w1, w2, w3, w4);
        lemma_val_prod_bound(a@, b@);
        lemma_val_bound(c@);
        lemma_sgn(sign, ab);
        lemma_signed_carry_range(v13, v0, sgn(sign) * ab, carry as int, cn);
    } @*/

    debug_assert!(carry.abs() <= 1);
    carry
}
