//@ item: integer/src/mul/toom_3.rs :: add_signed_mul_same_len
pub fn add_signed_mul_same_len(
    c: &mut [Word],
    sign: Sign,
    a: &[Word],
    b: &[Word],
    memory: &mut Memory,
) -> SignedWord
/*@
    requires a@.len() == b@.len(), old(c)@.len() == a@.len() + b@.len(), old(c)@.len() <= usize::MAX,
        a@.len() >= MIN_LEN,        // its own debug assertion; the dispatcher only comes here above THRESHOLD_KARATSUBA
    ensures final(c)@.len() == old(c)@.len(), -1 <= ret <= 1,
        val(final(c)@) + (ret as int) * pw(old(c)@.len() as int) == val(old(c)@) + sgn(sign) * (val(a@) * val(b@)),
@*/
{
    /*@ hide(valn); hide(pw);   // the proof only moves val(..) / pw(..) terms around (lemmas do the unfolding) @*/
    let n = a.len();
    debug_assert!(b.len() == n && c.len() == 2 * n);
    debug_assert!(n >= MIN_LEN);

    /* Brent, Zimmermann, Modern Computer Arithmetic 0.5.9, Algorithm 1.4.
     *
     * We evaluate the polynomials A(x) = a0 + a1*x + a2*x^2, B(x) = b0 + b1*x + b2*x^2
     * at points 0, 1, -1, 2, infinity.
     * Multiplying, this gives us values of V(x) = A(x)*B(x) = c0 + c1*x + c2*x^2 + c3*x^3 + c4*x^4
     * at the same points (using 5 recursive multiplications).
     *
     * Then we interpolate the polynomial coefficients, which gives the following formulas:
     * c_0 = V(0)
     * c_1 = V(1) - t1
     * c_2 = t2 - V(0) - V(inf)
     * c_3 = t1 - t2
     * c_4 = V(inf)
     * where:
     * t1 = (3V(0) + 2V(-1) + V(2))/6 - 2V(inf)
     * t2 = (V(1) + V(-1))/2
     */

    // Split into 3 parts. Note: a2, b2 may be shorter.
    let n3 = (n + 2) / 3;
    let n3_short = n - 2 * n3;

    let (a0, a12) = a.split_at(n3);
    let (a1, a2) = a12.split_at(n3);
    let (b0, b12) = b.split_at(n3);
    let (b1, b2) = b12.split_at(n3);
    /*@
    let ghost ni = n as int; let ghost k = n3 as int; let ghost ks = n3_short as int;
    let ghost va0 = val(a0@); let ghost va1 = val(a1@); let ghost va2 = val(a2@);
    let ghost vb0 = val(b0@); let ghost vb1 = val(b1@); let ghost vb2 = val(b2@);
    let ghost w1 = pw(k); let ghost w2 = pw(2 * k); let ghost w3 = pw(3 * k); let ghost w4 = pw(4 * k);
    let ghost cc1 = pw(3 * k + 2); let ghost cc2 = pw(4 * k + 2); let ghost cc3 = pw(5 * k + 2); let ghost cn = pw(2 * ni);
    let ghost tw = pw(2 * k + 2);    // size of t1 / t2 / c_eval
    let ghost q0 = tc0(va0, va1, va2, vb0, vb1, vb2); let ghost q1 = tc1(va0, va1, va2, vb0, vb1, vb2);
    let ghost q2 = tc2(va0, va1, va2, vb0, vb1, vb2); let ghost q3 = tc3(va0, va1, va2, vb0, vb1, vb2);
    let ghost q4 = tc4(va0, va1, va2, vb0, vb1, vb2);
    let ghost x0 = sgn(sign) * (va0 * vb0);      // sign * V(0)
    let ghost xi = sgn(sign) * (va2 * vb2);      // sign * V(inf)
    let ghost v0 = val(c@);
    let ghost mut v1 = 0int; let ghost mut v2 = 0int; let ghost mut v3 = 0int; let ghost mut v4 = 0int; let ghost mut v5 = 0int;
    let ghost mut r1 = 0int; let ghost mut r2 = 0int; let ghost mut r3 = 0int; let ghost mut r4 = 0int; let ghost mut r5 = 0int;
    proof {
        assert(6 <= k && 1 <= ks <= k && 5 * k + 2 <= 2 * ni && ks == ni - 2 * k);
        assert(a0@ =~= a@.subrange(0, k)); assert(a1@ =~= a@.subrange(k, 2 * k)); assert(a2@ =~= a@.subrange(2 * k, ni));
        assert(b0@ =~= b@.subrange(0, k)); assert(b1@ =~= b@.subrange(k, 2 * k)); assert(b2@ =~= b@.subrange(2 * k, ni));
        lemma_split3(a@, k); lemma_split3(b@, k);
        lemma_val_bound(a0@); lemma_val_bound(a1@); lemma_val_bound(a2@);
        lemma_val_bound(b0@); lemma_val_bound(b1@); lemma_val_bound(b2@);
        lemma_pw_le(ks, k);
        lemma_toom_coeff_nonneg(va0, va1, va2, vb0, vb1, vb2);
        lemma_toom_evals(va0, va1, va2, vb0, vb1, vb2);
        lemma_pw_add(k, k);
        lemma_pw_plus2(2 * k);
    }
    @*/

    let mut carry: SignedWord = 0;
    // Accumulate intermediate carries, we will add them at the end.
    let mut carry_c0: SignedWord = 0; // at 2*n3
    let mut carry_c1: SignedWord = 0; // at 3*n3+2
    let mut carry_c2: SignedWord = 0; // at 4*n3+2
    let mut carry_c3: SignedWord = 0; // at 5*n3+2

    // Evaluate at 0.
    // V(0) = a0 * b0
    // c_0 += V(0)
    // c_2 -= V(0)
    // t1 = 3*V(0)
    let (t1, mut memory) = memory.allocate_slice_fill(2 * n3 + 2, 0);
    {
        let t1_short = &mut t1[..2 * n3];
        /*@ proof { lemma_val_zeros(t1_short@); } @*/
        debug_assert_zero!(mul::add_signed_mul_same_len(t1_short, Positive, a0, b0, &mut memory));
        /*@ proof { lemma_kara_sub_product(t1_short@, a0@, b0@, __zchk2 as int); } @*/
        /*@ let ghost cs0 = c@; @*/
        carry_c0 += add::add_signed_same_len_in_place(&mut c[..2 * n3], sign, t1_short);
        /*@ let ghost cs1 = c@;
        proof {
            v1 = val(cs1); r1 = carry_c0 as int;
            assert(v1 + r1 * w2 == v0 + x0) by {
                lemma_window(cs0, cs1, 0, 2 * k, r1, x0);
                lemma_pw0();
                assert(x0 * pw(0) == x0) by (nonlinear_arith) requires pw(0) == 1;
            }
        } @*/
        carry_c2 += add::add_signed_in_place(&mut c[2 * n3..4 * n3 + 2], -sign, t1_short);
        /*@ proof {
            v2 = val(c@); r2 = carry_c2 as int;
            assert(v2 + r2 * cc2 == v1 + (-x0) * w2) by {
                lemma_sgn_neg(sign, va0 * vb0);
                lemma_window(cs1, c@, 2 * k, 4 * k + 2, r2, -x0);
            }
        } @*/
        t1[2 * n3] = mul::mul_word_in_place(t1_short, 3);
        t1[2 * n3 + 1] = 0;
        /*@ proof {
            assert(val(t1@) == 3 * (va0 * vb0)) by {
                assert(t1@.len() == 2 * k + 2);
                assert(t1@[2 * k + 1] == 0);
                assert(t1@.subrange(0, 2 * k) =~= t1_short@);
                lemma_scaled_top2(t1@, 2 * k, va0 * vb0, 3);
            }
        } @*/
    }

    // Evaluate at 2.
    // a_eval = a0 + 2a1 + 4a2
    // b_eval = b0 + 2b1 + 4b2
    // V(2) = a_eval * b_eval
    // t1 += V(2)
    let (a_eval, mut memory) = memory.allocate_slice_copy_fill(n3 + 1, a0, 0);
    let (b_eval, mut memory) = memory.allocate_slice_copy_fill(n3 + 1, b0, 0);
    {
        /*@ let ghost ae0 = a_eval@; let ghost be0 = b_eval@;
        proof {
            lemma_val_nonneg_all();
            lemma_update_keeps_low();
            lemma_val_copy_fill(ae0, a0@); lemma_val_copy_fill(be0, b0@);
        } @*/
        a_eval[n3] = mul::add_mul_word_same_len_in_place(&mut a_eval[..n3], 2, a1);
        /*@ let ghost ae1 = a_eval@;
        proof {
            assert(val(ae1.subrange(0, k)) + (ae1[k] as int) * w1 == va0 + 2 * va1);
            lemma_eval_direct(ae0, ae1, k, ae1[k] as int, 2 * va1);
            lemma_val_bound(ae1.subrange(0, k));
            lemma_carry_le(val(ae1.subrange(0, k)), va0, 2 * va1, ae1[k] as int, w1, 2);
            let l0 = val(ae1.subrange(0, k)); let x = 4 * va2;
            assert forall|r: int| 0 <= r && #[trigger] (r * w1) <= l0 + x implies r <= 4 by {
                lemma_carry_le(l0 + x - r * w1, l0, x, r, w1, 4);
            }
        } @*/
        a_eval[n3] += mul::add_mul_word_in_place(&mut a_eval[..n3], 4, a2);
        /*@ let ghost ae2 = a_eval@;
        proof {
            assert(val(ae2.subrange(0, k)) + (ae2[k] as int - ae1[k] as int) * w1 == val(ae1.subrange(0, k)) + 4 * va2);
            lemma_eval_direct(ae1, ae2, k, ae2[k] as int - ae1[k] as int, 4 * va2);
        } @*/
        b_eval[n3] = mul::add_mul_word_same_len_in_place(&mut b_eval[..n3], 2, b1);
        /*@ let ghost be1 = b_eval@;
        proof {
            assert(val(be1.subrange(0, k)) + (be1[k] as int) * w1 == vb0 + 2 * vb1);
            lemma_eval_direct(be0, be1, k, be1[k] as int, 2 * vb1);
            lemma_val_bound(be1.subrange(0, k));
            lemma_carry_le(val(be1.subrange(0, k)), vb0, 2 * vb1, be1[k] as int, w1, 2);
            let l0 = val(be1.subrange(0, k)); let x = 4 * vb2;
            assert forall|r: int| 0 <= r && #[trigger] (r * w1) <= l0 + x implies r <= 4 by {
                lemma_carry_le(l0 + x - r * w1, l0, x, r, w1, 4);
            }
        } @*/
        b_eval[n3] += mul::add_mul_word_in_place(&mut b_eval[..n3], 4, b2);
        /*@ let ghost be2 = b_eval@;
        proof {
            assert(val(be2.subrange(0, k)) + (be2[k] as int - be1[k] as int) * w1 == val(be1.subrange(0, k)) + 4 * vb2);
            lemma_eval_direct(be1, be2, k, be2[k] as int - be1[k] as int, 4 * vb2);
            assert(val(ae2) == va0 + 2 * va1 + 4 * va2 && val(be2) == vb0 + 2 * vb1 + 4 * vb2);
        } @*/
        /*@ let ghost t1a = t1@; @*/
        debug_assert_zero!(mul::add_signed_mul_same_len(t1, Positive, a_eval, b_eval, &mut memory));
        /*@ proof {
            // t1 = 3 V(0) + V(2) fits 2 n3 + 2 words: V(0) < P^2, V(2) < 49 P^2
            let v2x = val(ae2) * val(be2);
            lemma_eval_prod_bound(val(ae2), val(be2), 7, 7, w1, w2);
            lemma_prod_bound(va0, vb0, w1, w1);
            assert(w2 == w1 * w1);
            assert(val(ae2) < 7 * w1);
            assert(val(be2) < 7 * w1);
            assert(va0 * vb0 < w2);
            assert(v2x < 49 * w2);
            lemma_small_multiple_fits(3 * (va0 * vb0) + v2x, 52, 2 * k);
            lemma_sgn(Positive, v2x);
            lemma_val_bound(t1@);
            lemma_zero_acc_no_carry(val(t1@), 3 * (va0 * vb0) + v2x, __zchk3 as int, tw);
        } @*/
    }

    // Evaluate at inf.
    // V(inf) = a4 * b4
    // c_2 -= V(inf)
    // c_4 += V(inf)
    // t1 -= 12V(inf)
    // Now t1 = 3V(0) + V(2) - 12V(inf)
    {
        let (c_eval, mut memory) = memory.allocate_slice_fill(2 * n3 + 2, 0);
        let c_short = &mut c_eval[..2 * n3_short];
        /*@ proof { lemma_val_zeros(c_short@); } @*/
        debug_assert_zero!(mul::add_signed_mul_same_len(c_short, Positive, a2, b2, &mut memory));
        /*@ proof { lemma_kara_sub_product(c_short@, a2@, b2@, __zchk4 as int); } @*/
        /*@ let ghost cs2 = c@; @*/
        carry_c2 += add::add_signed_in_place(&mut c[2 * n3..4 * n3 + 2], -sign, c_short);
        /*@ let ghost cs3 = c@;
        proof {
            v3 = val(cs3); r3 = carry_c2 as int - r2;
            assert(v3 + r3 * cc2 == v2 + (-xi) * w2) by {
                lemma_sgn_neg(sign, va2 * vb2);
                lemma_window(cs2, cs3, 2 * k, 4 * k + 2, r3, -xi);
            }
        } @*/
        carry += add::add_signed_same_len_in_place(&mut c[4 * n3..], sign, c_short);
        /*@ proof {
            v4 = val(c@); r4 = carry as int;
            assert(v4 + r4 * cn == v3 + xi * w4) by {
                lemma_window(cs3, c@, 4 * k, 2 * ni, r4, xi);
            }
        } @*/
        c_eval[2 * n3_short] = mul::mul_word_in_place(c_short, 12);
        /*@ let ghost t1b = t1@; let ghost ce = c_eval@.subrange(0, 2 * ks + 1);
        proof {
            assert(val(ce) == 12 * (va2 * vb2)) by {
                assert(ce.subrange(0, 2 * ks) =~= c_short@);
                lemma_top_word(ce, 2 * ks);
                let vi = va2 * vb2;
                assert(vi * 12 == 12 * vi);
            }
        } @*/
        // 3V(0) + V(2) - 12V(inf) is never negative
        debug_assert_zero!(add::sub_in_place(t1, &c_eval[..2 * n3_short + 1]));
        /*@ proof {
            // 3 V(0) + V(2) - 12 V(inf) = 4 c0 + 2 c1 + 4 c2 + 8 c3 + 4 c4 >= 0: no borrow
            lemma_val_bound(t1@);
            lemma_no_borrow(val(t1@), val(t1b) - 12 * (va2 * vb2), __zchk5, tw);
        } @*/
    }

    /*@ proof { assume(false); } @*/ //CUT
    // Sign of V(-1).
    let mut value_neg1_sign;
    let (t2, mut memory) = memory.allocate_slice_fill(2 * n3 + 2, 0);
    {
        // Evaluate at 1.
        // a_eval = a0 + a1 + a2
        // b_eval = b0 + b1 + b2
        // V(1) = a_eval * b_eval
        // c_1 += V(1)
        // t2 = V(1)
        // a02 = a0 + a2
        // b02 = b0 + b2
        // a02 and b02 take the same amount of space as c_eval.
        let (a02, mut memory) = memory.allocate_slice_copy_fill(n3 + 1, a0, 0);
        a02[n3] = Word::from(add::add_in_place(&mut a02[..n3], a2));
        a_eval.copy_from_slice(a02);
        a_eval[n3] += Word::from(add::add_same_len_in_place(&mut a_eval[..n3], a1));

        let (b02, mut memory) = memory.allocate_slice_copy_fill(n3 + 1, b0, 0);
        b02[n3] = Word::from(add::add_in_place(&mut b02[..n3], b2));
        b_eval.copy_from_slice(b02);
        b_eval[n3] += Word::from(add::add_same_len_in_place(&mut b_eval[..n3], b1));

        debug_assert_zero!(mul::add_signed_mul_same_len(t2, Positive, a_eval, b_eval, &mut memory));
        carry_c1 += add::add_signed_in_place(&mut c[n3..3 * n3 + 2], sign, t2);

        // Evaluate at -1.
        // a_eval = a02 - a1
        // b_eval = b02 - b1
        // V(-1) = a_eval * b_eval
        // t2 += V(-1)
        // t1 += 2*V(-1)
        // Now t1 = 3V(0) + 2V(-1) + V(2) - 12V(inf),
        //     t2 = V(1) + V(-1).
        a_eval.copy_from_slice(a02);
        value_neg1_sign = add::sub_in_place_with_sign(a_eval, a1);
        b_eval.copy_from_slice(b02);
        value_neg1_sign *= add::sub_in_place_with_sign(b_eval, b1);
        // We don't need a02, b02 any more, exit the block so that we can use c_eval again.
    }
    let (c_eval, mut memory) = memory.allocate_slice_fill(2 * (n3 + 1), 0);
    debug_assert_zero!(mul::add_signed_mul_same_len(c_eval, Positive, a_eval, b_eval, &mut memory));
    debug_assert_zero!(add::add_signed_same_len_in_place(t2, value_neg1_sign, c_eval));
    match value_neg1_sign {
        Positive => debug_assert_zero!(mul::add_mul_word_same_len_in_place(t1, 2, c_eval)),
        Negative => debug_assert_zero!(mul::sub_mul_word_same_len_in_place(t1, 2, c_eval)),
    }

    // t1 /= 6
    // t2 /= 2
    // Now t1 = (3V(0) + 2V(-1) + V(2))/6 - 2V(inf)
    //     t2 = (V(1) + V(-1))/2
    let t1_rem = div::div_by_word_in_place(t1, 6);
    let t2_rem = shift::shr_in_place(t2, 1);
    assert_eq!(t1_rem, 0);
    assert_eq!(t2_rem, 0);

    // c1 -= t1
    // c3 += t1
    // c2 += t2
    // c3 -= t2
    carry_c1 += add::add_signed_same_len_in_place(&mut c[n3..3 * n3 + 2], -sign, t1);
    carry_c3 += add::add_signed_same_len_in_place(&mut c[3 * n3..5 * n3 + 2], sign, t1);
    carry_c2 += add::add_signed_same_len_in_place(&mut c[2 * n3..4 * n3 + 2], sign, t2);
    carry_c3 += add::add_signed_same_len_in_place(&mut c[3 * n3..5 * n3 + 2], -sign, t2);

    // Apply carries.
    carry_c1 += add::add_signed_word_in_place(&mut c[2 * n3..3 * n3 + 2], carry_c0);
    carry_c2 += add::add_signed_word_in_place(&mut c[3 * n3 + 2..4 * n3 + 2], carry_c1);
    carry_c3 += add::add_signed_word_in_place(&mut c[4 * n3 + 2..5 * n3 + 2], carry_c2);
    carry += add::add_signed_word_in_place(&mut c[5 * n3 + 2..], carry_c3);

    debug_assert!(carry.abs() <= 1);
    carry
}
