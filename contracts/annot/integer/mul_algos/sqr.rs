//@ item: integer/src/sqr/mod.rs :: sqr
// b = a * a, b must be filled with zeros (C01).  PROVED here; annot/integer/sqr/sqr.rs (the contract ASSUMED by units
// int_mul_ops / int_pow) is this contract without the conjunct `old(b)@.len() <= usize::MAX` (true of every slice).
pub fn sqr(b: &mut [Word], a: &[Word], memory: &mut Memory)
/*@
    requires a@.len() >= 2, old(b)@.len() == a@.len() * 2, old(b)@.len() <= usize::MAX,   // the function's own debug assertions
        forall|i: int| 0 <= i < old(b)@.len() ==> old(b)@[i] == 0,
    ensures final(b)@.len() == old(b)@.len(),
        val(final(b)@) == val(a@) * val(a@),
@*/
{
    debug_assert!(a.len() >= 2, "use native multiplication when a is small");
    debug_assert!(b.len() == a.len() * 2);
    debug_assert!(b.iter().all(|&v| v == 0));

    if a.len() <= MAX_LEN_SIMPLE {
        simple::square(b, a);
    } else {
        /*@ proof { lemma_val_zeros(b@); } @*/
        debug_assert_zero!(mul::add_signed_mul_same_len(b, Sign::Positive, a, a, memory));
        /*@ proof { lemma_kara_sub_product(b@, a@, a@, __zchk3 as int); } @*/
    }
}
