//@ item: integer/src/mul/mod.rs :: mul_dword_in_place
// words *= rhs (a double word), the two-word carry out is returned.  PROVED here with the contract text of
// annot/integer/mul/mul_dword_in_place.rs (ASSUMED by units int_mul_ops / int_pow): the `chunks_exact_mut` iteration is
// lowered by rules D1d / D1c.
pub fn mul_dword_in_place(words: &mut [Word], rhs: DoubleWord) -> DoubleWord
/*@
    requires old(words)@.len() <= usize::MAX,
        rhs as int >= B(),          // the function's own debug assertion ("call mul_word_in_place when rhs is small")
    ensures final(words)@.len() == old(words)@.len(),
        val(final(words)@) + (ret as int) * pw(old(words)@.len() as int) == val(old(words)@) * (rhs as int),
@*/
{
    debug_assert!(rhs > Word::MAX as DoubleWord, "call mul_word_in_place when rhs is small");

    // chunk the words into double words, and do 2by2 multiplications
    let mut dwords = words.chunks_exact_mut(2);
    let mut carry = 0;
    /*@ let ghost w_in = words@; let ghost len = words@.len() as int; let ghost rv = rhs as int;
    proof { assert(pw(0) == 1); assert(valn(w_in, 0) * rv == 0) by (nonlinear_arith) requires valn(w_in, 0) == 0; } @*/
    for chunk in &mut dwords
    /*@
        invariant __n0 == len / 2, __i0 <= __n0, words@.len() == len, len <= usize::MAX, rv == rhs as int, w_in.len() == len,
            valn(words@, 2 * __i0) + (carry as int) * pw(2 * __i0) == valn(w_in, 2 * __i0) * rv,
            forall|j: int| 2 * __i0 <= j < len ==> words@[j] == w_in[j],
        decreases __n0 - __i0
    @*/
    {
        let lo = chunk.first().unwrap();
        let hi = chunk.last().unwrap();
        let (p, new_carry) = math::mul_add_carry_dword(double_word(*lo, *hi), rhs, carry);
        let (new_lo, new_hi) = split_dword(p);
        /*@ let ghost k0 = carry as int; @*/
        *chunk.first_mut().unwrap() = new_lo;
        *chunk.last_mut().unwrap() = new_hi;
        carry = new_carry;
        /*@ proof { lemma_muldw_step(__w0, words@, w_in, __i0 as int - 1, rv, k0, new_carry as int); } @*/
    }

    // there might be a single word left, do two 1by1 multiplications
    /*@ let ghost w_mid = words@; let ghost kk = carry as int; let ghost m = 2 * (len / 2); @*/
    let r = dwords.into_remainder();
    if !r.is_empty() {
        debug_assert!(r.len() == 1);
        let r0 = r.first_mut().unwrap();
        let (m_lo, m_hi) = split_dword(rhs);
        let (c_lo, c_hi) = split_dword(carry);
        let (n_lo, nc_lo) = math::mul_add_carry(*r0, m_lo, c_lo);
        let (n_hi, nc_hi) = math::mul_add_2carry(*r0, m_hi, nc_lo, c_hi);
        *r0 = n_lo;
        carry = double_word(n_hi, nc_hi);
        /*@ proof {
            lemma_muldw_tail(w_mid, words@, w_in, m, rv, kk, carry as int, m_lo as int, m_hi as int, c_lo as int, c_hi as int,
                nc_lo as int, n_hi as int, nc_hi as int);
        } @*/
    }
    /*@ proof {
        if len % 2 == 0 {
            assert(m == len);
            assert(words@ =~= w_mid);
        }
        assert(val(words@) + (carry as int) * pw(len) == val(w_in) * rv);
    } @*/
    carry
}
