//@ item: integer/src/root.rs :: sqrt_rem_42
// Karatsuba square root, base case: a has 4 words (normalized: top two bits not both zero), b gets the 2-word root,
// a[..2] the remainder, the return value its carry:  val(a) == s^2 + (r + carry * B^2),  r + carry * B^2 <= 2 s.
fn sqrt_rem_42(b: &mut [Word], a: &mut [Word]) -> bool
/*@
    requires old(a)@.len() == 4, old(b)@.len() == 2,                                   // own debug assertion
        old(a)@[3] as int >= B() / 4,       // "a is normalized" (sqrt_rem's documented requirement)
    ensures final(a)@.len() == 4, final(b)@.len() == 2,
        val(old(a)@) == val(final(b)@) * val(final(b)@) + (val(final(a)@.subrange(0, 2)) + b2i(ret) * pw(2)),
        val(final(a)@.subrange(0, 2)) + b2i(ret) * pw(2) <= 2 * val(final(b)@),
@*/
{
    debug_assert!(a.len() == 4 && b.len() == 2);

    // see sqrt_rem() for algorithm explanation
    // step1: sqrt on the higher half
    /*@
    let ghost a0 = a@[0] as int; let ghost a1 = a@[1] as int;
    let ghost hd = a@[2] as int + (a@[3] as int) * B();
    let ghost av = val(a@);
    proof { lemma_val4(a@); }
    @*/
    let (s1, r1) = highest_dword(a).sqrt_rem();
    let s1 = s1 as Word;
    /*@
    let ghost s1i = s1 as int; let ghost r1i = r1 as int;
    proof {
        // normalized: hd >= (B/2)^2, so B/2 <= s1 < B
        let a3 = a@[3] as int;
        assert(a3 * B() >= (B() / 4) * B()) by (nonlinear_arith) requires a3 >= B() / 4;
        lemma_root_consts();
        assert(hd >= (B() / 2) * (B() / 2));
        assert(a3 * B() <= (B() - 1) * B()) by (nonlinear_arith) requires a3 <= B() - 1;
        assert(hd < B() * B());
        lemma_root_s1_range(hd, s1i, r1i, B(), B() / 2);
    }
    @*/

    // step2: estimate the result with lower half
    // here r0 = (r1*B + b1) / 2
    let (r1_lo, r1_hi) = split_dword(r1);
    let r0_hi = r1_hi << (WORD_BITS - 1) | r1_lo >> 1;
    let r0_lo = r1_lo << (WORD_BITS - 1) | a[1] >> 1;
    /*@
    let ghost nn = r1i * B() + a1;                 // the numerator r1 * B + a1
    let ghost r0 = r0_lo as int + (r0_hi as int) * B();
    proof {
        assert(r1_hi <= 1);
        lemma_root_half_word(r1_hi, r1_lo);
        lemma_root_half_word(r1_lo, a@[1]);
        assert(nn == 2 * r0 + a1 % 2);
    }
    @*/
    let (mut q, mut u) = double_word(r0_lo, r0_hi).div_rem(s1 as DoubleWord);
    /*@
    let ghost q0 = q as int; let ghost uu0 = 2 * (u as int) + a1 % 2;
    let ghost s0 = s1i * B() + q0;
    let ghost rr0 = uu0 * B() + a0 - q0 * q0;
    proof {
        lemma_root_double_div(nn, r0, a1 % 2, q0, u as int, s1i);
        lemma_root_q_le(r1i, a1, s1i, q0, uu0, B());
        lemma_root_identity(av, hd, a1, a0, s1i, r1i, q0, uu0, B(), s0);
        lemma_root_rem_bounds(s1i, q0, uu0, a0, B(), s0);
        lemma_root_correct(s0, rr0);
        lemma_root_dword_hi(q);
    }
    @*/
    if q >> WORD_BITS > 0 {
        // if q >= B (then q = B), reduce the overestimate
        q -= 1;
        u += s1 as DoubleWord;
    }
    /*@ proof { lemma_root_shl1_or(u, a@[1]); } @*/
    u = u << 1 | (a[1] & 1) as DoubleWord;
    /*@
    // after the possible reduction of q: root estimate sx, remainder rrx with av == sx^2 + rrx
    let ghost reduced = q0 >= B();
    let ghost sx = if reduced { s0 - 1 } else { s0 };
    let ghost rrx = if reduced { rr0 + 2 * s0 - 1 } else { rr0 };
    proof {
        assert(q as int == (if reduced { q0 - 1 } else { q0 }));
        assert(u as int == (if reduced { uu0 + 2 * s1i } else { uu0 }));
        assert(av == sx * sx + rrx);
        assert(reduced ==> 0 <= rrx <= 2 * sx);
        assert(!reduced ==> rrx <= 2 * sx && rrx + 2 * sx - 1 >= 0);
    }
    @*/

    let q = q as Word; // now q must fit in a Word
    let (u_lo, u_hi) = split_dword(u);
    let mut s = double_word(q, s1);
    /*@ proof {
        assert(s as int == sx);
        let qi = q as int;
        assert(qi * qi <= (B() - 1) * (B() - 1)) by (nonlinear_arith) requires 0 <= qi <= B() - 1;
    } @*/
    let q2 = extend_word(q) * extend_word(q);
    let (mut r, borrow) = double_word(a[0], u_lo).overflowing_sub(q2);
    /*@ proof { assert(u_hi <= 3); } @*/
    let mut c: i8 = u_hi as i8 - borrow as i8;
    /*@ proof {
        // R = r + c * B^2
        let qi = q as int; let ui = u as int;
        assert(ui * B() == (u_lo as int) * B() + (u_hi as int) * (B() * B()));
        assert(reduced ==> (uu0 + 2 * s1i) * B() + a0 - (q0 - 1) * (q0 - 1) == rr0 + 2 * s0 - 1) by {
            assert((q0 - 1) * (q0 - 1) == q0 * q0 - 2 * q0 + 1) by (nonlinear_arith);
        }
        assert(rrx == r as int + (c as int) * (B() * B()));
        assert(reduced ==> c >= 0);
    } @*/

    // step3: fix the estimation error if necessary
    if c < 0 {
        let (new_r, c1) = r.overflowing_add(s);
        s -= 1;
        let (new_r, c2) = new_r.overflowing_add(s);
        c += c1 as i8 + c2 as i8;
        r = new_r;
    }
    /*@
    let ghost sf = s as int;
    let ghost rrf = r as int + (c as int) * (B() * B());
    proof {
        assert(av == sf * sf + rrf);
        assert(0 <= rrf <= 2 * sf);
        lemma_root_carry01(r as int, c as int, B() * B(), rrf);
    }
    @*/

    let (r_lo, r_hi) = split_dword(r);
    let (s_lo, s_hi) = split_dword(s);
    a[0] = r_lo;
    a[1] = r_hi;
    b[0] = s_lo;
    b[1] = s_hi;
    /*@ proof {
        lemma_val2(b@);
        lemma_val4(a@);
        assert(pw(2) == B() * B()) by { assert(pw(2) == B() * pw(1)); assert(pw(1) == B() * pw(0)); assert(pw(0) == 1); }
    } @*/
    c > 0
}
