//@ item: integer/src/sqr/simple.rs :: square
// b = a^2 by the diagonal trick: off-diagonal products once (triangular part), then b = 2*b + sum a_i^2 B^(2i) fused in
// one pass.  Precondition "b is zero" from the only call site (sqr::sqr, its debug assertion).
pub fn square(b: &mut [Word], a: &[Word])
/*@
    requires old(b)@.len() == a@.len() * 2, old(b)@.len() <= usize::MAX, a@.len() >= 1,
        forall|i: int| 0 <= i < old(b)@.len() ==> old(b)@[i] == 0,
    ensures final(b)@.len() == old(b)@.len(),
        val(final(b)@) == val(a@) * val(a@),
@*/
{
    debug_assert!(b.len() == a.len() * 2);

    /*
     * A simple algorithm for squaring
     *
     * let B = 2^WORD_BITS
     * take a = a0 + a1*B + a2*B^2 + a3*B^3 as an example
     * to calculate a^2 = (a0 + a1*B + a2*B^2 + a3*B^3) ^ 2
     *
     * first
     * b += a0 * (a1 + a2*B + a3*B^2) * B
     * b += a1 * (a2 + a3*B) * B^3
     * b += a2 * a3 * B^5
     *
     * then
     * b = b * 2 + (a0^2 + a1^2*B^2 + a2^2*B^4 + a3^2*B^6)
     * the square and shifting can be fused in a single run
     *
     */

    // first step (triangular part)
    let mut c0 = false;
    let mut offset = 1;
    let mut a_cur = a;
    /*@
    let ghost n = a@.len() as int;
    let ghost mut i = 0int;
    proof { lemma_tri_init(b@, a@); assert(a_cur@ =~= a@.subrange(0, n)); }
    @*/
    while let Some((m, new_cur)) = a_cur.split_first()
    /*@
        invariant 0 <= i <= n, n == a@.len(), b@.len() == 2 * n, b@.len() <= usize::MAX,
            a_cur@ == a@.subrange(i, n), offset == 2 * i + 1,
            tri_inv(b@, a@, i, c0),
            forall|j: int| n + i <= j < 2 * n ==> b@[j] == 0,
        ensures i == n,
        decreases n - i
    @*/
    {
        a_cur = new_cur;
        /*@ let ghost b0 = b@; let ghost k0 = c0;
        proof { assert(a_cur@ =~= a@.subrange(i + 1, n)); assert(*m == a@[i]); } @*/
        let carry =
            mul::add_mul_word_same_len_in_place(&mut b[offset..offset + a_cur.len()], *m, a_cur);
        /*@ let ghost b1 = b@; @*/
        let b_top = &mut b[offset + a_cur.len()];
        let (new_top, carry_next) = arch::add::add_with_carry(*b_top, carry, c0);
        *b_top = new_top;
        c0 = carry_next;
        /*@ proof {
            lemma_tri_row(b0, b1, b@, a@, i, k0, carry_next, carry as int);
            i = i + 1;
        } @*/
        offset += 2;
    }
    /*@ let ghost bm = b@; proof { lemma_tri_fin(bm, a@, c0); lemma_diag_init(bm, a@); } @*/

    // second step (diagonal part)
    let (mut c1, mut c2) = (false, false);
    for (m, b01) in a.iter().zip(b.chunks_exact_mut(2))
    /*@
        invariant __n0 == n, n == a@.len(), __i0 <= n, b@.len() == 2 * n, bm.len() == 2 * n, b@.len() <= usize::MAX,
            diag_inv(b@, bm, a@, __i0 as int, c1, c2),
            forall|j: int| 2 * __i0 <= j < 2 * n ==> b@[j] == bm[j],
        decreases __n0 - __i0
    @*/
    {
        let b0 = b01.first().unwrap();
        let b1 = b01.last().unwrap();

        // new [b0, b1] = m^2 + 2 * [b0, b1] + c1 + c2
        let (s0, s1) = mul_add_2carry(*m, *m, *b0, *b0);
        let s = double_word(s0, s1);
        let wb1 = double_word(0, *b1);
        let (s, oc1) = s.overflowing_add(wb1 + c1 as DoubleWord);
        let (s, oc2) = s.overflowing_add(wb1 + c2 as DoubleWord);
        let (s0, s1) = split_dword(s);

        /*@ let ghost k1 = c1; let ghost k2 = c2; @*/
        *b01.first_mut().unwrap() = s0;
        *b01.last_mut().unwrap() = s1;
        c1 = oc1;
        c2 = oc2;
        /*@ proof { lemma_diag_step(__w0, b@, bm, a@, __i0 as int - 1, k1, k2, oc1, oc2); } @*/
    }
    /*@ let ghost bf = b@; proof { lemma_square_fin(bf, bm, a@, c0, c1, c2); } @*/

    // aggregate carry bits
    *b.last_mut().unwrap() += c0 as Word + c1 as Word + c2 as Word;
    /*@ proof { assert(b@ =~= bf); } @*/
}
