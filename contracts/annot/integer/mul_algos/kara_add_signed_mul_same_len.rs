//@ item: integer/src/mul/karatsuba.rs :: add_signed_mul_same_len
// Karatsuba: c += sign * a * b, |a| == |b| == n >= 3, three half-size products through the dispatcher's contract.
// Recursion: every nested product has at most mid = ceil(n/2) < n words per factor (measure: the factor length).
/*@ #[verifier::spinoff_prover] @*/
pub fn add_signed_mul_same_len(
    c: &mut [Word],
    sign: Sign,
    a: &[Word],
    b: &[Word],
    memory: &mut Memory,
) -> SignedWord
/*@
    requires a@.len() == b@.len(), old(c)@.len() == a@.len() + b@.len(), old(c)@.len() <= usize::MAX,
        a@.len() >= MIN_LEN,        // its own debug assertion; the dispatcher only comes here above THRESHOLD_SIMPLE
    ensures final(c)@.len() == old(c)@.len(), -1 <= ret <= 1,
        val(final(c)@) + (ret as int) * pw(old(c)@.len() as int) == val(old(c)@) + sgn(sign) * (val(a@) * val(b@)),
    decreases a@.len(), 0int       // recursion through the dispatcher: the factor length strictly decreases (checked in unit int_mul_toom3)
@*/
{
    /*@ hide(valn); hide(pw);   // the proof only moves val(..) / pw(..) terms around (lemmas do the unfolding) @*/
    let n = a.len();
    debug_assert!(b.len() == n && c.len() == 2 * n);
    debug_assert!(n >= MIN_LEN);

    let mid = (n + 1) / 2;

    let (a_lo, a_hi) = a.split_at(mid);
    let (b_lo, b_hi) = b.split_at(mid);
    /*@
    let ghost ni = n as int;
    let ghost m = mid as int;
    let ghost h = ni - m;
    let ghost va0 = val(a_lo@); let ghost va1 = val(a_hi@);
    let ghost vb0 = val(b_lo@); let ghost vb1 = val(b_hi@);
    let ghost p1 = pw(m); let ghost p2 = pw(2 * m); let ghost p3 = pw(3 * m); let ghost pn = pw(2 * ni);
    let ghost xl = sgn(sign) * (va0 * vb0);
    let ghost xh = sgn(sign) * (va1 * vb1);
    let ghost v0 = val(c@);
    let ghost mut v1 = 0int; let ghost mut v3 = 0int;
    let ghost mut sa = Positive; let ghost mut sb = Positive;
    let ghost mut da = 0int; let ghost mut db = 0int; let ghost mut xd = 0int;
    proof {
        assert(1 <= h <= m && m < ni && 3 * m <= 2 * ni);
        assert(val(a@) == va0 + p1 * va1) by {
            lemma_val_split(a@, m);
            assert(a_lo@ =~= a@.subrange(0, m)); assert(a_hi@ =~= a@.subrange(m, ni));
        }
        assert(val(b@) == vb0 + p1 * vb1) by {
            lemma_val_split(b@, m);
            assert(b_lo@ =~= b@.subrange(0, m)); assert(b_hi@ =~= b@.subrange(m, ni));
        }
        lemma_val_bound(c@);
    }
    @*/
    // Result = a_lo * b_lo + a_hi * b_hi * Word^(2mid)
    //        + (a_lo * b_lo + a_hi * b_hi - (a_lo-a_hi)*(b_lo-b_hi)) * Word^mid
    let mut carry: SignedWord = 0;
    let mut carry_c0: SignedWord = 0; // 2*mid
    let mut carry_c1: SignedWord = 0; // 3*mid

    {
        // c_0 += a_lo * b_lo
        // c_1 += a_lo * b_lo
        let (c_lo, mut memory) = memory.allocate_slice_fill::<Word>(2 * mid, 0);
        /*@ proof { lemma_val_zeros(c_lo@); } @*/
        debug_assert_zero!(mul::add_signed_mul_same_len(c_lo, Positive, a_lo, b_lo, &mut memory));
        /*@ proof {
            lemma_kara_sub_product(c_lo@, a_lo@, b_lo@, __zchk2 as int);
        } @*/
        /*@ let ghost cs0 = c@; @*/
        carry_c0 += add::add_signed_same_len_in_place(&mut c[..2 * mid], sign, c_lo);
        /*@ let ghost cs1 = c@;
        proof {
            v1 = val(cs1);
            assert(v1 + (carry_c0 as int) * p2 == v0 + xl) by {
                lemma_window(cs0, cs1, 0, 2 * m, carry_c0 as int, xl);
                lemma_pw0();
                assert(xl * pw(0) == xl) by (nonlinear_arith) requires pw(0) == 1;
            }
        } @*/
        carry_c1 += add::add_signed_same_len_in_place(&mut c[mid..3 * mid], sign, c_lo);
        /*@ proof {
            assert(val(c@) + (carry_c1 as int) * p3 == v1 + xl * p1) by {
                lemma_window(cs1, c@, m, 3 * m, carry_c1 as int, xl);
            }
        } @*/
    }
    /*@ let ghost v2 = val(c@); let ghost r1 = carry_c0 as int; let ghost r2 = carry_c1 as int; @*/
    {
        // c_2 += a_hi * b_hi
        // c_1 += a_hi * b_hi
        let (c_hi, mut memory) = memory.allocate_slice_fill::<Word>(2 * (n - mid), 0);
        /*@ proof { lemma_val_zeros(c_hi@); } @*/
        debug_assert_zero!(mul::add_signed_mul_same_len(c_hi, Positive, a_hi, b_hi, &mut memory));
        /*@ proof {
            lemma_kara_sub_product(c_hi@, a_hi@, b_hi@, __zchk3 as int);
        } @*/
        /*@ let ghost cs2 = c@; @*/
        carry += add::add_signed_same_len_in_place(&mut c[2 * mid..], sign, c_hi);
        /*@ let ghost cs3 = c@;
        proof {
            v3 = val(cs3);
            assert(v3 + (carry as int) * pn == v2 + xh * p2) by {
                lemma_window(cs2, cs3, 2 * m, 2 * ni, carry as int, xh);
            }
        } @*/
        carry_c1 += add::add_signed_in_place(&mut c[mid..3 * mid], sign, c_hi);
        /*@ proof {
            assert(val(c@) + (carry_c1 as int - r2) * p3 == v3 + xh * p1) by {
                lemma_window(cs3, c@, m, 3 * m, carry_c1 as int - r2, xh);
            }
        } @*/
    }
    /*@ let ghost v4 = val(c@); let ghost r3 = carry as int; let ghost r4 = carry_c1 as int - r2; @*/
    {
        // c1 -= (a_lo - a_hi) * (b_lo - b_hi)
        let (a_diff, mut memory) = memory.allocate_slice_copy(a_lo);
        let mut diff_sign = add::sub_in_place_with_sign(a_diff, a_hi);
        /*@ proof { sa = diff_sign; da = val(a_diff@); } @*/
        let (b_diff, mut memory) = memory.allocate_slice_copy(b_lo);
        diff_sign *= add::sub_in_place_with_sign(b_diff, b_hi);
        /*@ proof {
            sb = sign_mul(sa, diff_sign); db = val(b_diff@);
            assert(diff_sign == sign_mul(sa, sb));
            assert(sgn(sb) * db == vb0 - vb1);
            xd = sgn(sign_mul(sign_neg(sign), sign_mul(sa, sb))) * (da * db);
        } @*/
        /*@ let ghost cs4 = c@; @*/

        carry_c1 += mul::add_signed_mul_same_len(
            &mut c[mid..3 * mid],
            -sign * diff_sign,
            a_diff,
            b_diff,
            &mut memory,
        );
        /*@ proof {
            assert(val(c@) + (carry_c1 as int - r2 - r4) * p3 == v4 + xd * p1) by {
                lemma_window(cs4, c@, m, 3 * m, carry_c1 as int - r2 - r4, xd);
            }
        } @*/
    }
    /*@ let ghost cs5 = c@; let ghost v5 = val(c@); let ghost r5 = carry_c1 as int - r2 - r4; @*/

    // Propagate carries.
    carry_c1 += add::add_signed_word_in_place(&mut c[2 * mid..3 * mid], carry_c0);
    /*@ let ghost cs6 = c@; let ghost v6 = val(c@); let ghost k1 = carry_c1 as int - r2 - r4 - r5;
    proof {
        assert(v6 + k1 * p3 == v5 + r1 * p2) by {
            lemma_window(cs5, cs6, 2 * m, 3 * m, k1, r1);
            lemma_pw_add(2 * m, m);
        }
        // the last window is empty when n == 3: then the callee returns its carry-in unchanged
        lemma_pw0();
        lemma_val_empty();
        assert forall|r: int| #[trigger] (r * pw(0)) == r by { assert(r * 1 == r); }
        assert(-4 <= carry_c1 <= 4);
    } @*/
    carry += add::add_signed_word_in_place(&mut c[3 * mid..], carry_c1);
    /*@ proof {
        let k2 = carry as int - r3;
        let v7 = val(c@);
        assert(v7 + k2 * pn == v6 + (r2 + r4 + r5 + k1) * p3) by {
            lemma_window(cs6, c@, 3 * m, 2 * ni, k2, r2 + r4 + r5 + k1);
        }
        lemma_kara_carries(v0, v1, v2, v3, v4, v5, v6, v7, r1, r2, r3, r4, r5, k1, k2, xl, xh, xd, p1, p2, p3, pn);
        lemma_pw_add(m, m);
        lemma_kara_final(sign, sa, sb, val(a@), val(b@), va0, va1, vb0, vb1, da, db, p1, p2, xl, xh, xd);
        lemma_val_prod_bound(a@, b@);
        lemma_val_bound(c@);
        lemma_sgn(sign, val(a@) * val(b@));
        lemma_signed_carry_range(v7, v0, sgn(sign) * (val(a@) * val(b@)), carry as int, pn);
    } @*/

    debug_assert!(carry.abs() <= 1);
    carry
}
