//@ item: integer/src/mul/simple.rs :: add_signed_mul
pub fn add_signed_mul(
    c: &mut [Word],
    sign: Sign,
    a: &[Word],
    b: &[Word],
    memory: &mut Memory,
) -> SignedWord
/*@
    requires a@.len() >= b@.len(), b@.len() <= MAX_SMALLER_LEN, old(c)@.len() == a@.len() + b@.len(), old(c)@.len() <= usize::MAX,
    ensures final(c)@.len() == old(c)@.len(), -1 <= ret <= 1,
        val(final(c)@) + (ret as int) * pw(old(c)@.len() as int) == val(old(c)@) + sgn(sign) * (val(a@) * val(b@)),
    decreases b@.len(), a@.len() + b@.len(), 2int
@*/
{
    debug_assert!(a.len() >= b.len() && c.len() == a.len() + b.len());
    debug_assert!(b.len() <= MAX_SMALLER_LEN);
    if a.len() <= CHUNK_LEN {
        add_signed_mul_chunk(c, sign, a, b, memory)
    } else {
        helpers::add_signed_mul_split_into_chunks(
            c,
            sign,
            a,
            b,
            CHUNK_LEN,
            memory,
            add_signed_mul_chunk,
        )
    }
}
