//@ item: integer/src/root.rs :: sqrt_rem
// Karatsuba square root (Zimmermann): a = 2n words, normalized (top two bits not both zero); b gets the n-word root,
// a[..n] the remainder, the return value its carry:  val(a) == s^2 + (r + carry * B^n),  r + carry * B^n <= 2 s.
// This is the statement ASSUMED by unit int_root_ops (lib/gcdo_root_lemmas.rs) plus `len <= usize::MAX` (true of every
// slice).  Recursion on the high half: measure n = |b|.
/*@ #[verifier::spinoff_prover] #[verifier::rlimit(400)] @*/
pub fn sqrt_rem(b: &mut [Word], a: &mut [Word], memory: &mut Memory) -> bool
/*@
    requires old(a)@.len() == 2 * old(b)@.len(), old(b)@.len() >= 2, old(a)@.len() <= usize::MAX,   // own debug assertions
        old(a)@[old(a)@.len() - 1] as int >= B() / 4,       // "a is normalized": the top two bits are not both zero
    ensures final(a)@.len() == old(a)@.len(), final(b)@.len() == old(b)@.len(),
        val(old(a)@) == val(final(b)@) * val(final(b)@)
            + (val(final(a)@.subrange(0, old(b)@.len() as int)) + b2i(ret) * pw(old(b)@.len() as int)),
        val(final(a)@.subrange(0, old(b)@.len() as int)) + b2i(ret) * pw(old(b)@.len() as int) <= 2 * val(final(b)@),
    decreases old(b)@.len()
@*/
{
    /*@ hide(valn); hide(pw);   // the proof only moves val(..) / pw(..) terms around (lemmas do the unfolding) @*/
    debug_assert!(a.len() % 2 == 0);
    debug_assert!(a.len() >= 4, "use native sqrt when a has less than 2 words");
    debug_assert!(a.len() == b.len() * 2);

    // shortcut when a has exactly 4 words
    if a.len() == 4 {
        return sqrt_rem_42(b, a);
    }

    /*
     * the "Karatsuba Square Root" algorithm:
     * assume n = a*B^2 + b1*B + b0, B=2^k, a has 2k bits and
     * is normalized (the top two bits of a are not all zeros)
     * 1. calculate sqrt on high part:
     *     s1, r1 = sqrt_rem(a) (r1 <= 2*s1)
     * 2. estimate the root with low part
     *     q, u = div_rem(r1*B + b1, 2*s1)
     *     s = s1*B + q
     *     r = u*B + b0 - q^2
     *    at this step, since a is normalized, we have s1 >= B/2,
     *    therefore q <= floor((r1*B + b1) / B) <= r1 <= 2*s1
     *    also notice b1 < B <= 2*s1, so q <= B
     *
     * 3. if a3 is normalized, then s is either correct or 1 too big.
     *    r is negative in the latter case, needs adjustment
     *     if r < 0 {
     *         r += 2*s - 1
     *         s -= 1
     *     }
     *
     * Reference: Zimmermann, P. (1999). Karatsuba square root (Doctoral dissertation, INRIA).
     * https://hal.inria.fr/inria-00072854/en/
     */
    let n = a.len() / 2; // the length of a
    let split = n / 2; // the length of b0
    /*@
    let ghost ni = n as int; let ghost k = split as int; let ghost h = ni - k;
    let ghost a_in = a@; let ghost av = val(a_in);
    let ghost pk = pw(k); let ghost ph = pw(h); let ghost pn = pw(ni);
    let ghost vb0 = val(a_in.subrange(0, k));              // low part b0 (k words)
    let ghost vb1 = val(a_in.subrange(k, 2 * k));          // low part b1 (k words)
    let ghost vah = val(a_in.subrange(2 * k, 2 * ni));     // high part (2h words)
    let ghost th = (B() / 2) * pw(h - 1);                  // B^h / 2
    proof {
        assert(ni >= 3 && k >= 1 && h >= 2 && k <= h <= k + 1 && k + h == ni);
        lemma_root_consts();
        assert(av == vb0 + pk * vb1 + pw(2 * k) * vah) by { lemma_split_3way(a_in, k, 2 * k); }
        assert(ph == 2 * th && vah >= th * th && vah < ph * ph && th >= 1) by {
            let hi = a_in.subrange(2 * k, 2 * ni);
            assert(hi[2 * h - 1] == a_in[2 * ni - 1]);
            lemma_root_norm_lower(hi, h);
        }
        lemma_pw_add(k, k); lemma_pw_add(k, h);
    }
    @*/

    // step1: sqrt on the higher half
    // afterwards, s1 = b[split..], r1 = a[2*split..split + n]
    let r1_top = sqrt_rem(&mut b[split..], &mut a[2 * split..], memory);
    /*@
    let ghost a1 = a@; let ghost b1 = b@;
    let ghost s1 = val(b1.subrange(k, ni));                    // root of the high part (h words)
    let ghost r1low = val(a1.subrange(2 * k, 2 * k + h));
    let ghost r1 = r1low + b2i(r1_top) * ph;                   // its remainder
    proof {
        assert(a1.subrange(2 * k, 2 * ni).subrange(0, h) =~= a1.subrange(2 * k, 2 * k + h));
        assert(vah == s1 * s1 + r1 && r1 <= 2 * s1);
        lemma_val_bound(b1.subrange(k, ni));
        lemma_val_bound(a1.subrange(2 * k, 2 * k + h));
        assert(0 <= b2i(r1_top) * ph) by (nonlinear_arith) requires ph >= 1, b2i(r1_top) >= 0;
        lemma_root_s1_range(vah, s1, r1, ph, th);
    }
    @*/
    if r1_top {
        // if the remainder `r1` has a carry, subtract `s1` from it so that the carry is removed
        // so later when calculate 2*q = (r1*B + b1) / s1, the result is actually one less
        let carry = sub_in_place(&mut a[2 * split..split + n], &b[split..]);
        /*@ proof {
            assert(b2i(r1_top) * ph == ph) by (nonlinear_arith) requires b2i(r1_top) == 1;
            lemma_val_bound(a@.subrange(2 * k, k + ni));
            if !carry { assert(b2i(carry) * ph == 0) by (nonlinear_arith) requires b2i(carry) == 0; }
            else { assert(b2i(carry) * ph == ph) by (nonlinear_arith) requires b2i(carry) == 1; }
        } @*/
        debug_assert!(carry);
    }
    /*@
    let ghost a2 = a@;
    let ghost r1p = val(a2.subrange(2 * k, k + ni));           // r1' = r1 - r1_top * s1
    proof {
        assert(r1 == r1p + b2i(r1_top) * s1 && 0 <= r1p < ph && (r1_top ==> r1p <= s1)) by {
            lemma_val_bound(a2.subrange(2 * k, k + ni));
            assert(b2i(r1_top) * s1 == (if r1_top { s1 } else { 0 })) by (nonlinear_arith) requires 0 <= b2i(r1_top) <= 1, r1_top ==> b2i(r1_top) == 1, !r1_top ==> b2i(r1_top) == 0;
            assert(b2i(r1_top) * ph == (if r1_top { ph } else { 0 })) by (nonlinear_arith) requires 0 <= b2i(r1_top) <= 1, r1_top ==> b2i(r1_top) == 1, !r1_top ==> b2i(r1_top) == 0;
        }
        assert(a2.subrange(0, 2 * k) =~= a_in.subrange(0, 2 * k));
        // the divisor s1 = b[split..] has its top bit set
        let sv = b1.subrange(k, ni);
        lemma_root_top_bit(sv);
        assert(sv[h - 1] == b1[ni - 1] && sv[h - 2] == b1[ni - 2]);
        let t1 = b1[ni - 1] as int;
        assert(t1 * B() >= (B() / 2) * B()) by (nonlinear_arith) requires t1 >= B() / 2;
    }
    @*/

    // step2: estimate the result with lower half
    let fast_div_top = FastDivideNormalized2::new(highest_dword(b));
    let carry = div::div_rem_in_place(&mut a[split..split + n], &b[split..], fast_div_top, memory);
    /*@
    let ghost a3 = a@;
    let ghost uu = val(a3.subrange(k, ni));                   // u = D mod s1 (h words)
    let ghost qq = val(a3.subrange(ni, ni + k));              // Q = D div s1 without its carry (k words)
    proof {
        let w0 = a2.subrange(k, k + ni); let w1 = a3.subrange(k, k + ni);
        assert(val(w0) == vb1 + pk * r1p) by {
            lemma_val_split(w0, k);
            assert(w0.subrange(0, k) =~= a_in.subrange(k, 2 * k));
            assert(w0.subrange(k, ni) =~= a2.subrange(2 * k, k + ni));
        }
        assert(w1.subrange(0, h) =~= a3.subrange(k, ni));
        assert(w1.subrange(h, ni) =~= a3.subrange(ni, ni + k));
        assert(w0.subrange(ni - h, ni) =~= a2.subrange(2 * k, k + ni));
        assert(vb1 + pk * r1p == (qq + b2i(carry) * pk) * s1 + uu && uu < s1 && carry == (r1p >= s1));
        assert(a3.subrange(0, k) =~= a_in.subrange(0, k));
    }
    @*/
    let (a_lo, a_hi) = a.split_at_mut(n);
    /*@ proof {
        assert(a_hi@.subrange(0, k) =~= a3.subrange(ni, ni + k));
        assert(a_lo@.subrange(k, ni) =~= a3.subrange(k, ni));
        assert(a_lo@.subrange(0, k) =~= a_in.subrange(0, k));
    } @*/
    b[..split].copy_from_slice(&a_hi[..split]);
    /*@
    let ghost xb = r1_top ^ carry;
    let ghost b2 = b@;
    proof {
        assert(b2.subrange(k, ni) =~= b1.subrange(k, ni));
        lemma_root_top_bit_word(xb);
        lemma_root_pow2_half();
        assert((b2i(xb) * (B() / 2)) % (B() / 2) == 0) by (nonlinear_arith) requires 0 <= b2i(xb) <= 1, B() / 2 >= 1;
    }
    @*/
    // by now 2*q = b[..split], u = a[split..n], carry is true only if r1 >= s1.
    // also notice that r1 <= 2 * s1, if r1 was subtracted by s1, then r1 <= s1.
    // so r_top and carry are both true only if r1 == 2 * s1 at the beginning.
    // the top bit of q is true if either r_top or carry is true, but not both
    let _ =
        shr_in_place_with_carry(&mut b[..split], 1, ((r1_top ^ carry) as Word) << (WORD_BITS - 1));
    let q_top = r1_top && carry; // true only when q = B, and then b[..split] = 0
    /*@
    let ghost b3 = b@;
    let ghost qlow = val(b3.subrange(0, k));
    let ghost cr = b2i(carry); let ghost tr = b2i(r1_top); let ghost xi = b2i(xb); let ghost qt = b2i(q_top);
    let ghost tt = qq % 2;                           // parity of the quotient by s1
    let ghost qf = qlow + qt * pk;                   // q = (r1 * P + b1) div (2 s1)
    let ghost uu2 = uu + tt * s1;                    // u = (r1 * P + b1) mod (2 s1)
    let ghost sv = s1 * pk + qf;                     // root estimate
    let ghost rr = uu2 * pk + vb0 - qf * qf;         // remainder estimate
    proof {
        assert(b3.subrange(k, ni) =~= b1.subrange(k, ni));
        assert(cr + tr == xi + 2 * qt);
        // the shift: qlow = (Q + x P) div 2
        assert(qlow == (qq + xi * pk) / 2) by {
            let hb = B() / 2;
            let x = qq * hb + (xi * hb) * pk;
            // (the shifted-out word is discarded: qlow * B + ret == x with 0 <= ret < B)
            assert(qlow == x / B());
            assert((xi * hb) * pk == hb * (xi * pk)) by (nonlinear_arith);
            assert(qq * hb + hb * (xi * pk) == hb * (qq + xi * pk)) by (nonlinear_arith);
            lemma_root_half_scaled(hb, qq + xi * pk);
        }
        lemma_pw_step(k);
        let pkh = (B() / 2) * pw(k - 1);
        assert(pk == 2 * pkh) by (nonlinear_arith) requires pk == B() * pw(k - 1), 2 * (B() / 2) == B(), pkh == (B() / 2) * pw(k - 1);
        lemma_root_halve(qq, xi, qt, pk, pkh, qlow);
        lemma_root_numerator(r1, r1p, tr, cr, s1, pk, vb1, qq, uu, qf, tt);
        lemma_val_bound(a3.subrange(k, ni));
        lemma_val_bound(a_in.subrange(k, 2 * k));
        lemma_val_bound(a_in.subrange(0, k));
        lemma_val_bound(b3.subrange(0, k));
        lemma_pw_le(k, h);
        assert(0 <= tt * s1 <= s1) by (nonlinear_arith) requires 0 <= tt <= 1, s1 >= 0;
        assert(0 <= qt * pk) by (nonlinear_arith) requires 0 <= qt, pk >= 1;
        lemma_root_q_le(r1, vb1, s1, qf, uu2, pk);
        assert(av == vah * (pk * pk) + vb1 * pk + vb0) by {
            assert(pw(2 * k) == pk * pk);
            assert(pk * vb1 == vb1 * pk) by (nonlinear_arith);
            assert((pk * pk) * vah == vah * (pk * pk)) by (nonlinear_arith);
        }
        lemma_root_identity(av, vah, vb1, vb0, s1, r1, qf, uu2, pk, sv);
        lemma_root_rem_bounds(s1, qf, uu2, vb0, pk, sv);
        lemma_root_qsq(qlow, qt, pk, qf);
    }
    @*/

    let mut c = 0i8; // stores final carry (top bit) of the remainder
    /*@ proof {
        lemma_root_low_bit(a_hi@[0]);
        lemma_val_parity(a_hi@.subrange(0, k));
        assert(a_hi@.subrange(0, k)[0] == a_hi@[0]);
        assert(a_hi@.subrange(0, k) =~= a3.subrange(ni, ni + k));
        assert(((a_hi@[0] & 1) != 0) == (tt == 1));
        assert(val(a_lo@.subrange(k, ni)) == uu);
        assert(val(b@.subrange(k, ni)) == s1);
    } @*/
    if a_hi[0] & 1 != 0 {
        // this step fixes the error in u caused by using s1 as divisor instead of 2*s1
        c = add_in_place(&mut a_lo[split..], &b[split..]) as i8;
    }
    /*@
    let ghost c1 = c as int;
    let ghost ulow = val(a_lo@.subrange(k, ni));
    proof {
        assert(tt * s1 == (if tt == 1 { s1 } else { 0 })) by (nonlinear_arith) requires tt == 0 || tt == 1;
        assert(c1 * ph == (if c1 == 1 { ph } else { 0 })) by (nonlinear_arith) requires c1 == 0 || c1 == 1;
        assert(uu2 == ulow + c1 * ph);
        assert(a_lo@.subrange(0, k) =~= a_in.subrange(0, k));
    }
    @*/

    // store q^2 in high part of a, ignoring q_top.
    // afterwards, the q_top flag will be considered in the subtraction,
    a_hi.fill(0);
    /*@ proof { lemma_val_zeros(a_hi@); assert(b@.subrange(0, k) =~= b3.subrange(0, k)); } @*/
    if !q_top {
        // if q_top is True, then q^2 = B^2, so we don't need to do squaring
        if split == 1 {
            /*@ proof {
                lemma_val1(b@.subrange(0, 1));
                let w = b@[0] as int;
                assert(w * w <= (B() - 1) * (B() - 1)) by (nonlinear_arith) requires 0 <= w <= B() - 1;
            } @*/
            let (b2_lo, b2_hi) = split_dword(extend_word(b[0]) * extend_word(b[0]));
            a_hi[0] = b2_lo;
            a_hi[1] = b2_hi;
            /*@ proof {
                lemma_val_low_rest_zero(a_hi@, 2);
                lemma_val2(a_hi@.subrange(0, 2));
            } @*/
        } else {
            sqr::sqr(&mut a_hi[..2 * split], &b[..split], memory);
            /*@ proof { lemma_val_low_rest_zero(a_hi@, 2 * k); } @*/
        }
    }
    /*@
    let ghost ahv = val(a_hi@);
    proof {
        assert(ahv == (if q_top { 0 } else { qlow * qlow }));
        assert(forall|j: int| 2 * k <= j < ni ==> a_hi@[j] == 0);
    }
    let ghost ahi_pre = a_hi@;
    @*/
    if 2 * split < n {
        a_hi[2 * split] = q_top as Word;
        /*@ proof {
            // n odd: the slot 2k of the n-word buffer gets q_top, i.e. q_top * P^2
            if q_top {
                lemma_val_zeros(ahi_pre);
                lemma_val_unit(a_hi@, 2 * k, 1);
                assert(1 * pw(2 * k) == pw(2 * k));
            } else {
                assert(a_hi@ =~= ahi_pre);
            }
        } @*/
    } else {
        c -= q_top as i8;
    }
    /*@
    let ghost e = if 2 * k < ni { 0int } else { qt };        // the part of q_top that went into c
    let ghost c2 = c as int;
    proof {
        assert(c2 == c1 - e);
        assert(val(a_hi@) + e * pn == qf * qf) by {
            assert(pw(2 * k) == pk * pk);
            if 2 * k < ni {
                assert(e * pn == 0) by (nonlinear_arith) requires e == 0;
            } else {
                assert(ni == 2 * k);
                assert(e * pn == (if q_top { pn } else { 0 })) by (nonlinear_arith) requires e == qt, qt == 0 || qt == 1, q_top == (qt == 1);
            }
        }
        assert(val(a_lo@) == vb0 + pk * ulow) by {
            lemma_val_split(a_lo@, k);
        }
    }
    let ghost lo0 = val(a_lo@);
    @*/
    c -= sub_in_place(a_lo, a_hi) as i8;
    /*@
    let ghost c3 = c as int;
    proof {
        let bo = c2 - c3;
        assert(val(a_lo@) - bo * pn == lo0 - val(a_hi@));
        lemma_root_rem_repr(lo0, val(a_lo@), val(a_hi@), vb0, ulow, c1, e, bo, qf * qf, pk, ph, pn);
        assert(rr == val(a_lo@) + c3 * pn);
    }
    @*/

    // step3: fix the estimation error if necessary
    /*@
    let ghost bv0 = val(b@);
    let ghost mut sfin = sv; let ghost mut rfin = rr;
    proof {
        // b = [qlow | s1]:  s = val(b) + q_top * P
        assert(bv0 == qlow + pk * s1) by {
            lemma_val_split(b@, k);
            assert(b@.subrange(0, k) =~= b3.subrange(0, k));
            assert(b@.subrange(k, ni) =~= b1.subrange(k, ni));
        }
        assert(pk * s1 == s1 * pk) by (nonlinear_arith);
        assert(sv == bv0 + qt * pk);
        lemma_val_bound(a_lo@);
        lemma_val_bound(b@);
        lemma_root_s_range(s1, qf, pk, ph, pn, sv);
        // the estimate: av == sv^2 + rr, rr <= 2 sv, one correction suffices; the sign of rr is the sign of c
        assert(av == sv * sv + rr && rr <= 2 * sv && rr + 2 * sv - 1 >= 0);
        assert(c3 >= 0 ==> rr >= 0) by {
            if c3 >= 0 { assert(c3 * pn >= 0) by (nonlinear_arith) requires c3 >= 0, pn >= 1; }
        }
        assert(c3 < 0 ==> rr <= -1) by {
            if c3 < 0 { assert(c3 * pn <= -pn) by (nonlinear_arith) requires c3 <= -1, pn >= 1; }
        }
        // q == P (q_top) forces a negative remainder: c >= 0 implies !q_top
        assert(c3 >= 0 ==> !q_top) by {
            if q_top {
                assert(qt * pk == pk) by (nonlinear_arith) requires qt == 1;
                assert(c3 * pn < 0);
                assert(c3 < 0) by (nonlinear_arith) requires c3 * pn < 0, pn >= 1;
            }
        }
    }
    @*/
    if c < 0 {
        // r += 2*s - 1; s -= 1;
        // apply the q_top to s first, and then adjust s and r
        let overflow = add_word_in_place(&mut b[split..], q_top as _);
        /*@
        let ghost bv1 = val(b@); let ghost lo0c = val(a_lo@);
        proof {
            assert(bv1 + b2i(overflow) * pn == sv) by {
                lemma_window(b3, b@, k, ni, b2i(overflow), qt);
            }
            // the carry of `a_lo += 2 * b` is at most 2 (needed inside the next statement)
            lemma_val_bound(b@);
            assert forall|m: Seq<Word>, r: int| #![trigger val(m), (r * pn)]
                m.len() == ni && 0 <= r && val(m) + r * pn == lo0c + 2 * bv1 implies r <= 2 by {
                lemma_val_bound(m);
                assert(r < 3) by (nonlinear_arith) requires r * pn < 3 * pn, pn >= 1;
            }
        }
        @*/
        c += add_mul_word_in_place(a_lo, 2, b) as i8 + 2 * overflow as i8;
        /*@ let ghost lo1c = val(a_lo@); let ghost c4 = c as int; @*/
        c -= sub_one_in_place(a_lo) as i8;
        /*@ let ghost lo2c = val(a_lo@); let ghost c5 = c as int; @*/
        let borrow = sub_one_in_place(b);
        /*@ proof {
            let kk = c4 - c3 - 2 * b2i(overflow);
            let bw = c4 - c5;
            lemma_root_correction(lo0c, lo1c, lo2c, c3, kk, b2i(overflow), bw, b2i(borrow), bv1, val(b@), sv, rr, pn);
            lemma_root_correct(sv, rr);
            lemma_val_bound(b@);
            lemma_root_no_wrap(val(b@), b2i(overflow) - b2i(borrow), pn);
            sfin = sv - 1; rfin = rr + 2 * sv - 1;
            assert(av == sfin * sfin + rfin);
            assert(0 <= rfin <= 2 * sfin);
            assert(sfin == val(b@));
            assert(rfin == val(a_lo@) + (c as int) * pn);
        } @*/
        debug_assert!(!(overflow ^ borrow)); // borrow should happen if and only if when overflow is true
    }
    /*@ proof {
        if c3 >= 0 {
            assert(qt == 0);
            assert(qt * pk == 0) by (nonlinear_arith) requires qt == 0;
            assert(sfin == sv && rfin == rr && sv == bv0);
        }
        assert(sfin == val(b@));
        assert(rfin == val(a_lo@) + (c as int) * pn);
        assert(av == sfin * sfin + rfin);
        assert(0 <= rfin <= 2 * sfin);
        lemma_val_bound(a_lo@);
        assert(2 * sfin < 2 * pn);
        lemma_root_carry01(val(a_lo@), c as int, pn, rfin);
        assert((c as int) * pn == b2i(c > 0) * pn);
    } @*/

    c > 0
    /*@ proof {
        assert(a@.subrange(0, ni) =~= a_lo@);
    } @*/
}
