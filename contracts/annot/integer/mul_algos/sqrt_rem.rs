//@ item: integer/src/root.rs :: sqrt_rem
// Karatsuba square root (Zimmermann): a = 2n words, normalized (top two bits not both zero); b gets the n-word root,
// a[..n] the remainder, the return value its carry:  val(a) == s^2 + (r + carry * B^n),  r + carry * B^n <= 2 s.
// This is the statement ASSUMED by unit int_root_ops (lib/gcdo_root_lemmas.rs) plus `len <= usize::MAX` (true of every
// slice).  Recursion on the high half: measure n = |b|.
/*@ #[verifier::spinoff_prover] #[verifier::rlimit(300)] @*/
pub fn sqrt_rem(b: &mut [Word], a: &mut [Word], memory: &mut Memory) -> bool
/*@
    requires old(a)@.len() == 2 * old(b)@.len(), old(b)@.len() >= 2, old(a)@.len() <= usize::MAX,   // own debug assertions
        old(a)@[old(a)@.len() - 1] as int >= B() / 4,       // "a is normalized": the top two bits are not both zero
    ensures final(a)@.len() == old(a)@.len(), final(b)@.len() == old(b)@.len(),
        val(old(a)@) == val(final(b)@) * val(final(b)@)
            + (val(final(a)@.subrange(0, old(b)@.len() as int)) + b2i(ret) * pw(old(b)@.len() as int)),
        val(final(a)@.subrange(0, old(b)@.len() as int)) + b2i(ret) * pw(old(b)@.len() as int) <= 2 * val(final(b)@),
    decreases old(b)@.len()
@*/
{
    /*@ hide(valn); hide(pw);   // the proof only moves val(..) / pw(..) terms around (lemmas do the unfolding) @*/
    debug_assert!(a.len() % 2 == 0);
    debug_assert!(a.len() >= 4, "use native sqrt when a has less than 2 words");
    debug_assert!(a.len() == b.len() * 2);

    // shortcut when a has exactly 4 words
    if a.len() == 4 {
        return sqrt_rem_42(b, a);
    }

    /*
     * the "Karatsuba Square Root" algorithm:
     * assume n = a*B^2 + b1*B + b0, B=2^k, a has 2k bits and
     * is normalized (the top two bits of a are not all zeros)
     * 1. calculate sqrt on high part:
     *     s1, r1 = sqrt_rem(a) (r1 <= 2*s1)
     * 2. estimate the root with low part
     *     q, u = div_rem(r1*B + b1, 2*s1)
     *     s = s1*B + q
     *     r = u*B + b0 - q^2
     *    at this step, since a is normalized, we have s1 >= B/2,
     *    therefore q <= floor((r1*B + b1) / B) <= r1 <= 2*s1
     *    also notice b1 < B <= 2*s1, so q <= B
     *
     * 3. if a3 is normalized, then s is either correct or 1 too big.
     *    r is negative in the latter case, needs adjustment
     *     if r < 0 {
     *         r += 2*s - 1
     *         s -= 1
     *     }
     *
     * Reference: Zimmermann, P. (1999). Karatsuba square root (Doctoral dissertation, INRIA).
     * https://hal.inria.fr/inria-00072854/en/
     */
    let n = a.len() / 2; // the length of a
    let split = n / 2; // the length of b0
    /*@
    let ghost ni = n as int; let ghost k = split as int; let ghost h = ni - k;
    let ghost a_in = a@; let ghost av = val(a_in);
    let ghost pk = pw(k); let ghost ph = pw(h); let ghost pn = pw(ni);
    let ghost vb0 = val(a_in.subrange(0, k));              // low part b0 (k words)
    let ghost vb1 = val(a_in.subrange(k, 2 * k));          // low part b1 (k words)
    let ghost vah = val(a_in.subrange(2 * k, 2 * ni));     // high part (2h words)
    let ghost th = (B() / 2) * pw(h - 1);                  // B^h / 2
    proof {
        assert(ni >= 3 && k >= 1 && h >= 2 && k <= h <= k + 1 && k + h == ni);
        lemma_root_consts();
        assert(av == vb0 + pk * vb1 + pw(2 * k) * vah) by { lemma_split_3way(a_in, k, 2 * k); }
        assert(ph == 2 * th && vah >= th * th && vah < ph * ph && th >= 1) by {
            let hi = a_in.subrange(2 * k, 2 * ni);
            assert(hi[2 * h - 1] == a_in[2 * ni - 1]);
            lemma_root_norm_lower(hi, h);
        }
        lemma_pw_add(k, k); lemma_pw_add(k, h);
    }
    @*/

    // step1: sqrt on the higher half
    // afterwards, s1 = b[split..], r1 = a[2*split..split + n]
    let r1_top = sqrt_rem(&mut b[split..], &mut a[2 * split..], memory);
    /*@
    let ghost a1 = a@; let ghost b1 = b@;
    let ghost s1 = val(b1.subrange(k, ni));                    // root of the high part (h words)
    let ghost r1low = val(a1.subrange(2 * k, 2 * k + h));
    let ghost r1 = r1low + b2i(r1_top) * ph;                   // its remainder
    proof {
        assert(a1.subrange(2 * k, 2 * ni).subrange(0, h) =~= a1.subrange(2 * k, 2 * k + h));
        assert(vah == s1 * s1 + r1 && r1 <= 2 * s1);
        lemma_val_bound(b1.subrange(k, ni));
        lemma_val_bound(a1.subrange(2 * k, 2 * k + h));
        assert(0 <= b2i(r1_top) * ph) by (nonlinear_arith) requires ph >= 1, b2i(r1_top) >= 0;
        lemma_root_s1_range(vah, s1, r1, ph, th);
    }
    @*/
    if r1_top {
        // if the remainder `r1` has a carry, subtract `s1` from it so that the carry is removed
        // so later when calculate 2*q = (r1*B + b1) / s1, the result is actually one less
        let carry = sub_in_place(&mut a[2 * split..split + n], &b[split..]);
        /*@ proof {
            assert(b2i(r1_top) * ph == ph) by (nonlinear_arith) requires b2i(r1_top) == 1;
            lemma_val_bound(a@.subrange(2 * k, k + ni));
            if !carry { assert(b2i(carry) * ph == 0) by (nonlinear_arith) requires b2i(carry) == 0; }
            else { assert(b2i(carry) * ph == ph) by (nonlinear_arith) requires b2i(carry) == 1; }
        } @*/
        debug_assert!(carry);
    }
    /*@
    let ghost a2 = a@;
    let ghost r1p = val(a2.subrange(2 * k, k + ni));           // r1' = r1 - r1_top * s1
    proof {
        assert(r1 == r1p + b2i(r1_top) * s1 && 0 <= r1p < ph && (r1_top ==> r1p <= s1)) by {
            lemma_val_bound(a2.subrange(2 * k, k + ni));
            assert(b2i(r1_top) * s1 == (if r1_top { s1 } else { 0 })) by (nonlinear_arith) requires 0 <= b2i(r1_top) <= 1, r1_top ==> b2i(r1_top) == 1, !r1_top ==> b2i(r1_top) == 0;
            assert(b2i(r1_top) * ph == (if r1_top { ph } else { 0 })) by (nonlinear_arith) requires 0 <= b2i(r1_top) <= 1, r1_top ==> b2i(r1_top) == 1, !r1_top ==> b2i(r1_top) == 0;
        }
        assert(a2.subrange(0, 2 * k) =~= a_in.subrange(0, 2 * k));
        // the divisor s1 = b[split..] has its top bit set
        let sv = b1.subrange(k, ni);
        lemma_root_top_bit(sv);
        assert(sv[h - 1] == b1[ni - 1] && sv[h - 2] == b1[ni - 2]);
        let t1 = b1[ni - 1] as int;
        assert(t1 * B() >= (B() / 2) * B()) by (nonlinear_arith) requires t1 >= B() / 2;
    }
    @*/

    // step2: estimate the result with lower half
    let fast_div_top = FastDivideNormalized2::new(highest_dword(b));
    let carry = div::div_rem_in_place(&mut a[split..split + n], &b[split..], fast_div_top, memory);
    /*@
    let ghost a3 = a@;
    let ghost uu = val(a3.subrange(k, ni));                   // u = D mod s1 (h words)
    let ghost qq = val(a3.subrange(ni, ni + k));              // Q = D div s1 without its carry (k words)
    proof {
        let w0 = a2.subrange(k, k + ni); let w1 = a3.subrange(k, k + ni);
        assert(val(w0) == vb1 + pk * r1p) by {
            lemma_val_split(w0, k);
            assert(w0.subrange(0, k) =~= a_in.subrange(k, 2 * k));
            assert(w0.subrange(k, ni) =~= a2.subrange(2 * k, k + ni));
        }
        assert(w1.subrange(0, h) =~= a3.subrange(k, ni));
        assert(w1.subrange(h, ni) =~= a3.subrange(ni, ni + k));
        assert(w0.subrange(ni - h, ni) =~= a2.subrange(2 * k, k + ni));
        assert(vb1 + pk * r1p == (qq + b2i(carry) * pk) * s1 + uu && uu < s1 && carry == (r1p >= s1));
        assert(a3.subrange(0, k) =~= a_in.subrange(0, k));
    }
    @*/
    /*@ proof { assume(false); } @*/ //CUT
    let (a_lo, a_hi) = a.split_at_mut(n);
    b[..split].copy_from_slice(&a_hi[..split]);
    // by now 2*q = b[..split], u = a[split..n], carry is true only if r1 >= s1.
    // also notice that r1 <= 2 * s1, if r1 was subtracted by s1, then r1 <= s1.
    // so r_top and carry are both true only if r1 == 2 * s1 at the beginning.
    // the top bit of q is true if either r_top or carry is true, but not both
    let _ =
        shr_in_place_with_carry(&mut b[..split], 1, ((r1_top ^ carry) as Word) << (WORD_BITS - 1));
    let q_top = r1_top && carry; // true only when q = B, and then b[..split] = 0

    let mut c = 0i8; // stores final carry (top bit) of the remainder
    if a_hi[0] & 1 != 0 {
        // this step fixes the error in u caused by using s1 as divisor instead of 2*s1
        c = add_in_place(&mut a_lo[split..], &b[split..]) as i8;
    }

    // store q^2 in high part of a, ignoring q_top.
    // afterwards, the q_top flag will be considered in the subtraction,
    a_hi.fill(0);
    if !q_top {
        // if q_top is True, then q^2 = B^2, so we don't need to do squaring
        if split == 1 {
            let (b2_lo, b2_hi) = split_dword(extend_word(b[0]) * extend_word(b[0]));
            a_hi[0] = b2_lo;
            a_hi[1] = b2_hi;
        } else {
            sqr::sqr(&mut a_hi[..2 * split], &b[..split], memory);
        }
    }
    if 2 * split < n {
        a_hi[2 * split] = q_top as Word;
    } else {
        c -= q_top as i8;
    }
    c -= sub_in_place(a_lo, a_hi) as i8;

    // step3: fix the estimation error if necessary
    if c < 0 {
        // r += 2*s - 1; s -= 1;
        // apply the q_top to s first, and then adjust s and r
        let overflow = add_word_in_place(&mut b[split..], q_top as _);
        c += add_mul_word_in_place(a_lo, 2, b) as i8 + 2 * overflow as i8;
        c -= sub_one_in_place(a_lo) as i8;
        let borrow = sub_one_in_place(b);
        debug_assert!(!(overflow ^ borrow)); // borrow should happen if and only if when overflow is true
    }

    c > 0
}
