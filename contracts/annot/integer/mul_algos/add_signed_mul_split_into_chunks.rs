//@ item: integer/src/mul/helpers.rs :: add_signed_mul_split_into_chunks
// c += sign * a * b by chunks of a.  The chunk kernel arrives as a function value: its contract is the `forall` pair on
// f.requires / f.ensures in the spec function chunk_fn_ok (lib/mulalg_lemmas.rs: callable on every chunk-sized instance; delivers mul_post), discharged at each call site
// from the contract of the function item that is passed (simple::add_signed_mul_chunk, karatsuba/toom_3::
// add_signed_mul_same_len).
// Preconditions taken from the call sites: chunk_len >= 1 (otherwise the loop does not terminate) and
// a.len() >= chunk_len (all three callers: |a| > CHUNK_LEN resp. chunk_len == |b| <= |a|); the latter makes the
// remainder call mul::add_signed_mul strictly smaller (termination measure).
pub fn add_signed_mul_split_into_chunks<F>(
    mut c: &mut [Word],
    sign: Sign,
    mut a: &[Word],
    b: &[Word],
    chunk_len: usize,
    memory: &mut Memory,
    f_add_signed_mul_chunk: F,
) -> SignedWord
where
    F: Fn(&mut [Word], Sign, &[Word], &[Word], &mut Memory) -> SignedWord,
/*@
    requires a@.len() >= b@.len(), old(c)@.len() == a@.len() + b@.len(), old(c)@.len() <= usize::MAX,
        b@.len() <= chunk_len, 1 <= chunk_len <= a@.len(),
        chunk_fn_ok(f_add_signed_mul_chunk, chunk_len as int, b@.len() as int),
    ensures final(c)@.len() == old(c)@.len(), -1 <= ret <= 1,
        val(final(c)@) + (ret as int) * pw(old(c)@.len() as int) == val(old(c)@) + sgn(sign) * (val(a@) * val(b@)),
    decreases b@.len(), a@.len() + b@.len(), 1int
@*/
{
    /*@ hide(valn); hide(pw); @*/
    debug_assert!(a.len() >= b.len() && c.len() == a.len() + b.len());
    debug_assert!(b.len() <= chunk_len);

    let n = b.len();
    let mut carry_n = 0; // at c[n]
    /*@
    let ghost c_orig = c@;
    let ghost a_orig = a@;
    let ghost mut done: Seq<Word> = Seq::empty();
    let ghost mut a_done: Seq<Word> = Seq::empty();
    proof {
        lemma_chunks_init(c_orig, sign, b@, n as int);
        assert(a_orig =~= a_done + a@);
    }
    @*/
    while a.len() >= chunk_len
    /*@
        invariant
            n == b@.len(), n <= chunk_len, 1 <= chunk_len, c@.len() == a@.len() + n, c@.len() <= usize::MAX,
            c_orig.len() == a_orig.len() + n, a_orig.len() >= chunk_len,
            -2 <= carry_n <= 2,
            a_orig == a_done + a@, done.len() == a_done.len(),
            final(old(c))@ == done + final(c)@,
            chunks_inv(done, c@, carry_n as int, n as int, c_orig, sign, a_done, b@),
            chunk_fn_ok(f_add_signed_mul_chunk, chunk_len as int, b@.len() as int),
        decreases a@.len()
    @*/
    {
        let (a_lo, a_hi) = a.split_at(chunk_len);
        /*@ let ghost ca = c@; let ghost c0 = carry_n as int; @*/
        // Propagate carry_n
        carry_n = add::add_signed_word_in_place(&mut c[n..chunk_len + n], carry_n);
        /*@ let ghost cb = c@; let ghost k1 = carry_n as int; @*/
        carry_n += f_add_signed_mul_chunk(&mut c[..chunk_len + n], sign, a_lo, b, memory);
        /*@ proof {
            let cc = c@;
            let l = chunk_len as int;
            lemma_chunks_step(done, ca, cb, cc, c0, k1, carry_n as int - k1, n as int, l, c_orig, sign, a_done, a_lo@, b@);
            done = done + cc.subrange(0, l);
            a_done = a_done + a_lo@;
            assert(a_orig =~= a_done + a_hi@);
        } @*/
        a = a_hi;
        c = &mut c[chunk_len..];
    }
    /*@ let ghost ca = c@; let ghost c0 = carry_n as int;
    proof {
        lemma_pw0();
        lemma_val_empty();
        assert forall|r: int| #[trigger] (r * pw(0)) == r by { assert(r * 1 == r); }
    } @*/
    // Propagate carry_n
    let mut carry = add::add_signed_word_in_place(&mut c[n..], carry_n);
    /*@ let ghost cb = c@; let ghost k2 = carry as int; @*/
    if a.len() >= b.len() {
        carry += mul::add_signed_mul(c, sign, a, b, memory);
    } else if !a.is_empty() {
        carry += mul::add_signed_mul(c, sign, b, a, memory);
        /*@ proof {
            let x = val(a@); let y = val(b@);
            assert(y * x == x * y) by (nonlinear_arith);
        } @*/
    }
    /*@ proof {
        let x = val(a@) * val(b@);
        if a@.len() == 0 {
            assert(val(a@) == 0);
            assert(0 * val(b@) == 0);
            lemma_sgn(sign, 0);
            assert(0 * pw(ca.len() as int) == 0);
        }
        lemma_chunks_fin(done, ca, cb, c@, c0, k2, carry as int - k2, n as int, c_orig, sign, a_done, a@, b@, x);
    } @*/
    carry
}
