//@ item: integer/src/mul/mod.rs :: add_signed_mul_same_len
// c += sign * a * b with len(a) == len(b): the size dispatch simple / Karatsuba / Toom-3 (C01: the result does not
// depend on the strategy: every arm has the postcondition of the schoolbook kernel).
pub fn add_signed_mul_same_len(
    c: &mut [Word],
    sign: Sign,
    a: &[Word],
    b: &[Word],
    memory: &mut Memory,
) -> SignedWord
/*@
    requires a@.len() == b@.len(), old(c)@.len() == a@.len() + b@.len(), old(c)@.len() <= usize::MAX,
    ensures final(c)@.len() == old(c)@.len(), -1 <= ret <= 1,
        val(final(c)@) + (ret as int) * pw(old(c)@.len() as int) == val(old(c)@) + sgn(sign) * (val(a@) * val(b@)),
    decreases a@.len(), 1int       // recursion through the dispatcher: the factor length strictly decreases (checked in unit int_mul_toom3)
@*/
{
    let n = a.len();
    debug_assert!(b.len() == n && c.len() == 2 * n);

    if n <= THRESHOLD_SIMPLE {
        simple::add_signed_mul_same_len(c, sign, a, b, memory)
    } else if n <= THRESHOLD_KARATSUBA {
        karatsuba::add_signed_mul_same_len(c, sign, a, b, memory)
    } else {
        toom_3::add_signed_mul_same_len(c, sign, a, b, memory)
    }
}
