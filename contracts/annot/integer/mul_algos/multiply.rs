//@ item: integer/src/mul/mod.rs :: multiply
// c = a * b, c must be filled with zeros (C01).  PROVED here; annot/integer/mul/multiply.rs (the contract ASSUMED by
// unit int_mul_ops) is this contract without the conjunct `old(c)@.len() <= usize::MAX` (true of every slice).
pub fn multiply<'a>(c: &mut [Word], a: &'a [Word], b: &'a [Word], memory: &mut Memory)
/*@
    requires old(c)@.len() == a@.len() + b@.len(), old(c)@.len() <= usize::MAX,
        forall|i: int| 0 <= i < old(c)@.len() ==> old(c)@[i] == 0,   // the function's own debug assertion
    ensures final(c)@.len() == old(c)@.len(),
        val(final(c)@) == val(a@) * val(b@),
@*/
{
    debug_assert!(c.iter().all(|&v| v == 0));
    /*@ proof { lemma_val_zeros(c@); } @*/
    debug_assert_zero!(add_signed_mul(c, Sign::Positive, a, b, memory));
    /*@ proof { lemma_kara_sub_product(c@, a@, b@, __zchk1 as int); } @*/
}
