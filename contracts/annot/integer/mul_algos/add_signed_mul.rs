//@ item: integer/src/mul/mod.rs :: add_signed_mul
// c += sign * a * b for arbitrary lengths: orders the factors by length, then dispatches on the SMALLER length
// (simple <= 24 words, Karatsuba <= 192, Toom-3 above).  Every arm has the same postcondition (C01: the result does not
// depend on the strategy or on how unbalanced the factors are).
pub fn add_signed_mul<'a>(
    c: &mut [Word],
    sign: Sign,
    mut a: &'a [Word],
    mut b: &'a [Word],
    memory: &mut Memory,
) -> SignedWord
/*@
    requires old(c)@.len() == a@.len() + b@.len(), old(c)@.len() <= usize::MAX,
    ensures final(c)@.len() == old(c)@.len(), -1 <= ret <= 1,
        val(final(c)@) + (ret as int) * pw(old(c)@.len() as int) == val(old(c)@) + sgn(sign) * (val(a@) * val(b@)),
    decreases (if a@.len() < b@.len() { a@.len() } else { b@.len() }), a@.len() + b@.len(), 3int
@*/
{
    debug_assert!(c.len() == a.len() + b.len());
    /*@ let ghost a0 = a@; let ghost b0 = b@;
    proof {
        let x = val(a0); let y = val(b0);
        assert(y * x == x * y) by (nonlinear_arith);
    } @*/

    if a.len() < b.len() {
        mem::swap(&mut a, &mut b);
    }

    if b.len() <= THRESHOLD_SIMPLE {
        simple::add_signed_mul(c, sign, a, b, memory)
    } else if b.len() <= THRESHOLD_KARATSUBA {
        karatsuba::add_signed_mul(c, sign, a, b, memory)
    } else {
        toom_3::add_signed_mul(c, sign, a, b, memory)
    }
}
