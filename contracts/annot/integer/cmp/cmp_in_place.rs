//@ item: integer/src/cmp.rs :: cmp_in_place
// TRUSTED CONTRACT (only ever used through `//@@ SIG` here; the comparison kernels belong to C05): numeric comparison
// of two normalized word sequences; only the `Equal` case is used by the callers in this area.
pub fn cmp_in_place(lhs: &[Word], rhs: &[Word]) -> Ordering
/*@
    requires lhs@.len() >= 1, rhs@.len() >= 1, lhs@[lhs@.len() - 1] != 0, rhs@[rhs@.len() - 1] != 0,   // own debug assertion
    ensures ret == Ordering::Equal <==> lhs@ == rhs@,
@*/
{
    debug_assert!(*lhs.last().unwrap() != 0 && *rhs.last().unwrap() != 0);
    lhs.len()
        .cmp(&rhs.len())
        .then_with(|| cmp_same_len(lhs, rhs))
}
