//@ item: integer/src/bits.rs :: mod repr :: clear_high_bits_large
fn clear_high_bits_large(mut buffer: Buffer, n: usize) -> Repr
/*@
    ensures
        // C09 clear_high_bits: only the low n binary digits survive, i.e. the value modulo 2^n
        ret.v() == val(buffer@) % pow2(n as int),
@*/
{
    /*@ let ghost a0 = buffer@; @*/
    let n_words = ceil_div(n, WORD_BITS_USIZE);
    if n_words > buffer.len() {
        /*@ proof { lemma_br_clear_high_noop(a0, n as int); } @*/
        Repr::from_buffer(buffer)
    } else {
        buffer.truncate(n_words);
        /*@ let ghost r = (n % WORD_BITS_USIZE) as int; let ghost mask: Word = (pow2(r) - 1) as Word; @*/
        /*@ proof { lemma_sh_pow2_mono(r, WORD_BITS as int); lemma_sh_pow2_bits(); } @*/
        if n % WORD_BITS_USIZE != 0 {
            let last = buffer.last_mut().unwrap();
            *last &= ones_word((n % WORD_BITS_USIZE) as u32);
        }
        /*@ proof { lemma_br_clear_high_seq(a0, buffer@, n as int, n_words as int, (n % WORD_BITS_USIZE) as u32, mask); } @*/
        Repr::from_buffer(buffer)
    }
}
