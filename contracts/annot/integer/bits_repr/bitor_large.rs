//@ item: integer/src/bits.rs :: mod repr :: bitor_large
fn bitor_large(mut buffer: Buffer, rhs: &[Word]) -> Repr
/*@
    requires rhs@.len() <= max_capacity(),        // rhs is the word slice of a number (Buffer::MAX_CAPACITY)
        // ensure_capacity never reallocates for <= 2 words: callers pass heap operands (>= 3 words, capacity >= 3)
        rhs@.len() <= 2 ==> rhs@.len() <= buffer.capacity(),
    ensures
        // C09: every binary digit of the result is the OR of the operands' digits (digits beyond the length are 0)
        forall|i: int| i >= 0 ==> #[trigger] nbit(ret.v(), i) == (nbit(val(buffer@), i) || nbit(val(rhs@), i)),
@*/
{
    /*@ let ghost a0 = buffer@; let ghost c0 = buffer.capacity(); @*/
    for (x, y) in buffer.iter_mut().zip(rhs.iter())
    /*@
        invariant __i0 <= __n0, buffer@.len() == a0.len(), buffer.capacity() == c0, rhs@.len() <= max_capacity(), rhs@.len() <= 2 ==> rhs@.len() <= c0,
            __n0 == (if a0.len() < rhs@.len() { a0.len() } else { rhs@.len() }),
            forall|j: int| 0 <= j < __i0 ==> buffer@[j] == a0[j] | rhs@[j],
            forall|j: int| __i0 <= j < a0.len() ==> buffer@[j] == a0[j],
        decreases __n0 - __i0
    @*/
    {
        *x |= *y;
    }
    if rhs.len() > buffer.len() {
        buffer.ensure_capacity(rhs.len());
        buffer.push_slice(&rhs[buffer.len()..]);
    }
    /*@ proof { lemma_br_or_seq(buffer@, a0, rhs@); } @*/
    Repr::from_buffer(buffer)
}
