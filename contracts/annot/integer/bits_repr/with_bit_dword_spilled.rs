//@ item: integer/src/bits.rs :: mod repr :: with_bit_dword_spilled
fn with_bit_dword_spilled(dword: DoubleWord, n: usize) -> Repr
/*@
    requires n >= DWORD_BITS_USIZE,
        n / WORD_BITS_USIZE < max_capacity(),    // otherwise the number is too large to represent (documented panic)
    ensures
        // C09 set_bit on an inline value, bit beyond the double word
        forall|i: int| i >= 0 ==> #[trigger] nbit(ret.v(), i) == (i == n || nbit(dword as int, i)),
@*/
{
    debug_assert!(n >= DWORD_BITS_USIZE);
    let idx = n / WORD_BITS_USIZE;
    let mut buffer = Buffer::allocate(idx + 1);
    let (lo, hi) = split_dword(dword);
    buffer.push(lo);
    buffer.push(hi);
    buffer.push_zeros(idx - 2);
    buffer.push(1 << (n % WORD_BITS_USIZE));
    /*@ proof { let d = seq![lo, hi]; lemma_val2(d);
        lemma_br_setbit_seq(buffer@, d, n as int, (1 as Word) << ((n % WORD_BITS_USIZE) as Word)); } @*/
    Repr::from_buffer(buffer)
}
