//@ item: integer/src/bits.rs :: mod repr :: and_not_large_dword
fn and_not_large_dword(mut buffer: Buffer, rhs: DoubleWord) -> Repr
/*@
    requires buffer@.len() >= 2,
    ensures
        // C09: digit-wise AND NOT with a double-word operand
        forall|i: int| i >= 0 ==> #[trigger] nbit(ret.v(), i) == (nbit(val(buffer@), i) && ! nbit(rhs as int, i)),
@*/
{
    debug_assert!(buffer.len() >= 2);

    /*@ let ghost a0 = buffer@; @*/
    let (lo, hi) = split_dword(rhs);
    let (b_lo, b_hi) = buffer.lowest_dword_mut();
    *b_lo &= ! lo;
    *b_hi &= ! hi;
    /*@ proof { let d = seq![lo, hi]; lemma_val2(d); lemma_br_andnot_seq(buffer@, a0, d); } @*/
    Repr::from_buffer(buffer)
}
