//@ item: integer/src/bits.rs :: mod repr :: with_bit_large
fn with_bit_large(mut buffer: Buffer, n: usize) -> Repr
/*@
    requires
        n / WORD_BITS_USIZE < max_capacity(),    // otherwise the number is too large to represent (documented panic)
        buffer.capacity() >= 2,                              // a heap operand (ensure_capacity never reallocates for <= 2 words)
    ensures
        // C09 set_bit: binary digit n becomes 1, every other digit is unchanged
        forall|i: int| i >= 0 ==> #[trigger] nbit(ret.v(), i) == (i == n || nbit(val(buffer@), i)),
@*/
{
    /*@ let ghost a0 = buffer@; @*/
    let idx = n / WORD_BITS_USIZE;
    if idx < buffer.len() {
        buffer[idx] |= 1 << (n % WORD_BITS_USIZE);
    } else {
        buffer.ensure_capacity(idx + 1);
        buffer.push_zeros(idx - buffer.len());
        buffer.push(1 << (n % WORD_BITS_USIZE));
    }
    /*@ proof { lemma_br_setbit_seq(buffer@, a0, n as int, (1 as Word) << ((n % WORD_BITS_USIZE) as Word)); } @*/
    Repr::from_buffer(buffer)
}
