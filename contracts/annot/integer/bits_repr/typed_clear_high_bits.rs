//@ item: integer/src/bits.rs :: mod repr :: impl TypedRepr :: clear_high_bits
pub fn clear_high_bits(self, n: usize) -> Repr
/*@ #[hoist(Self = TypedRepr)]
    ensures
        // C09 clear_high_bits: only the low n binary digits survive, i.e. the value modulo 2^n
        ret.v() == self.v() % pow2(n as int),
@*/
{
    match self {
        Small(dword) => {
            if n < DWORD_BITS_USIZE {
                /*@ proof {
                    assert forall|m: DoubleWord| m as int == pow2(n as int) - 1 implies #[trigger] (dword & m) as int == (dword as int) % pow2(n as int) by {
                        lemma_bd_mask(dword, m, n as u32);
                    }
                } @*/
                Repr::from_dword(dword & ones_dword(n as u32))
            } else {
                /*@ proof {
                    lemma_bd_pow2_dbits(); lemma_sh_pow2_mono(2 * WORD_BITS as int, n as int);
                    vstd::arithmetic::div_mod::lemma_fundamental_div_mod_converse(dword as int, pow2(n as int), 0, dword as int);
                } @*/
                Repr::from_dword(dword)
            }
        }
        Large(buffer) => clear_high_bits_large(buffer, n),
    }
}
