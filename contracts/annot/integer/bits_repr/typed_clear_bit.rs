//@ item: integer/src/bits.rs :: mod repr :: impl TypedRepr :: clear_bit
pub fn clear_bit(self, n: usize) -> Repr
/*@ #[hoist(Self = TypedRepr)]
    ensures
        // C09 clear_bit: binary digit n becomes 0, every other digit is unchanged
        forall|i: int| i >= 0 ==> #[trigger] nbit(ret.v(), i) == (i != n && nbit(self.v(), i)),
@*/
{
    match self {
        Small(dword) => {
            if n < DWORD_BITS_USIZE {
                /*@ proof { lemma_bd_clearbit(dword, n); } @*/
                Repr::from_dword(dword & !(1 << n))
            } else {
                /*@ proof { assert forall|i: int| i >= 0 implies #[trigger] nbit(dword as int, i) == (i != n && nbit(dword as int, i)) by { lemma_bd_nbit(dword, i); } } @*/
                Repr::from_dword(dword)
            }
        }
        Large(mut buffer) => {
            /*@ let ghost a0 = buffer@; @*/
            let idx = n / WORD_BITS_USIZE;
            if idx < buffer.len() {
                buffer[idx] &= !(1 << (n % WORD_BITS_USIZE));
            }
            /*@ proof { lemma_br_clearbit_seq(buffer@, a0, n as int, (1 as Word) << ((n % WORD_BITS_USIZE) as Word)); } @*/
            Repr::from_buffer(buffer)
        }
    }
}
