//@ item: integer/src/bits.rs :: mod repr :: bitand_large
fn bitand_large(mut buffer: Buffer, rhs: &[Word]) -> Repr
/*@
    requires rhs@.len() <= usize::MAX,
    ensures
        // C09: every binary digit of the result is the AND of the operands' digits (digits beyond the length are 0)
        forall|i: int| i >= 0 ==> #[trigger] nbit(ret.v(), i) == (nbit(val(buffer@), i) && nbit(val(rhs@), i)),
@*/
{
    /*@ let ghost a0 = buffer@; @*/
    if buffer.len() > rhs.len() {
        buffer.truncate(rhs.len());
    }
    for (x, y) in buffer.iter_mut().zip(rhs.iter())
    /*@
        invariant __i0 <= __n0, __n0 == buffer@.len(), buffer@.len() <= rhs@.len(), buffer@.len() <= a0.len(),
            buffer@.len() == a0.len() || buffer@.len() == rhs@.len(),
            forall|j: int| 0 <= j < __i0 ==> buffer@[j] == a0[j] & rhs@[j],
            forall|j: int| __i0 <= j < __n0 ==> buffer@[j] == a0[j],
        decreases __n0 - __i0
    @*/
    {
        *x &= *y;
    }
    /*@ proof { lemma_br_and_seq(buffer@, a0, rhs@); } @*/
    Repr::from_buffer(buffer)
}
