//@ item: integer/src/math.rs :: ones_dword
pub const fn ones_dword(n: u32) -> DoubleWord
/*@
    requires n <= DWORD_BITS,
    ensures ret as int == pow2(n as int) - 1,          // "n ones: 2^n - 1"
@*/
{
    if n == 0 {
        0
    } else {
        DoubleWord::MAX >> (DWORD_BITS - n)
    }
}
