//@ item: integer/src/bits.rs :: mod repr :: impl TypedRepr :: set_bit
pub fn set_bit(self, n: usize) -> Repr
/*@ #[hoist(Self = TypedRepr)]
    requires self.wf(),
        n / WORD_BITS_USIZE < max_capacity(),       // otherwise the number is too large to represent (documented panic)
    ensures
        // C09 set_bit: binary digit n becomes 1, every other digit is unchanged
        forall|i: int| i >= 0 ==> #[trigger] nbit(ret.v(), i) == (i == n || nbit(self.v(), i)),
@*/
{
    match self {
        Small(dword) => {
            if n < DWORD_BITS_USIZE {
                /*@ proof { lemma_bd_setbit(dword, n); } @*/
                Repr::from_dword(dword | 1 << n)
            } else {
                with_bit_dword_spilled(dword, n)
            }
        }
        Large(buffer) => with_bit_large(buffer, n),
    }
}
