//@ item: integer/src/bits.rs :: mod repr :: and_not_large
fn and_not_large(mut buffer: Buffer, rhs: &[Word]) -> Repr
/*@
    requires rhs@.len() <= usize::MAX,
    ensures
        // C09: x & !y digit by digit (digits of y beyond its length are 0, so those of x survive)
        forall|i: int| i >= 0 ==> #[trigger] nbit(ret.v(), i) == (nbit(val(buffer@), i) && !nbit(val(rhs@), i)),
@*/
{
    /*@ let ghost a0 = buffer@; @*/
    for (x, y) in buffer.iter_mut().zip(rhs.iter())
    /*@
        invariant __i0 <= __n0, buffer@.len() == a0.len(),
            __n0 == (if a0.len() < rhs@.len() { a0.len() } else { rhs@.len() }),
            forall|j: int| 0 <= j < __i0 ==> buffer@[j] == a0[j] & !rhs@[j],
            forall|j: int| __i0 <= j < a0.len() ==> buffer@[j] == a0[j],
        decreases __n0 - __i0
    @*/
    {
        *x &= !*y;
    }
    /*@ proof { lemma_br_andnot_seq(buffer@, a0, rhs@); } @*/
    Repr::from_buffer(buffer)
}
