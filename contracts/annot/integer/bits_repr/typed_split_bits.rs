//@ item: integer/src/bits.rs :: mod repr :: impl TypedRepr :: split_bits
pub fn split_bits(self, n: usize) -> (Repr, Repr)
/*@ #[hoist(Self = TypedRepr)]
    requires self.wf(),
    ensures
        // C09 split_bits: (low n binary digits, the rest shifted down) = (x mod 2^n, floor(x / 2^n))
        ret.0.v() == self.v() % pow2(n as int),
        ret.1.v() == self.v() / pow2(n as int),
@*/
{
    match self {
        Small(dword) => {
            if n < DWORD_BITS_USIZE {
                /*@ proof {
                    assert forall|m: DoubleWord| m as int == pow2(n as int) - 1 implies #[trigger] (dword & m) as int == (dword as int) % pow2(n as int) by {
                        lemma_bd_mask(dword, m, n as u32);
                    }
                    lemma_so_shr_div_d(dword, n as u32);
                } @*/
                (
                    Repr::from_dword(dword & ones_dword(n as u32)),
                    Repr::from_dword(dword >> n),
                )
            } else {
                /*@ proof {
                    lemma_bd_pow2_dbits(); lemma_sh_pow2_mono(2 * WORD_BITS as int, n as int);
                    vstd::arithmetic::div_mod::lemma_fundamental_div_mod_converse(dword as int, pow2(n as int), 0, dword as int);
                } @*/
                (Repr::from_dword(dword), Repr::zero())
            }
        }
        Large(buffer) => {
            if n == 0 {
                /*@ proof { assert(pow2(0) == 1); } @*/
                (Repr::zero(), Repr::from_buffer(buffer))
            } else {
                let hi = shift_ops::repr::shr_large_ref(&buffer, n);
                let lo = clear_high_bits_large(buffer, n);
                (lo, hi)
            }
        }
    }
}
