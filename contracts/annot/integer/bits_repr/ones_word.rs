//@ item: integer/src/math.rs :: ones_word
pub const fn ones_word(n: u32) -> Word
/*@
    requires n <= WORD_BITS,
    ensures ret as int == pow2(n as int) - 1,          // "n ones: 2^n - 1"
@*/
{
    if n == 0 {
        0
    } else {
        Word::MAX >> (Word::BIT_SIZE - n)
    }
}
