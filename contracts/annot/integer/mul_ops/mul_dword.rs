//@ item: integer/src/mul_ops.rs :: mod repr :: mul_dword
fn mul_dword(a: DoubleWord, b: DoubleWord) -> Repr
/*@ ensures ret.v() == (a as int) * (b as int), @*/
{
    /*@ proof { if a <= Word::MAX as DoubleWord && b <= Word::MAX as DoubleWord { lemma_word_prod_fits(a as int, b as int); } } @*/
    if a <= Word::MAX as DoubleWord && b <= Word::MAX as DoubleWord {
        Repr::from_dword(a * b)
    } else {
        mul_dword_spilled(a, b)
    }
}
