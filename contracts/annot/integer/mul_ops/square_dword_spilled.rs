//@ item: integer/src/mul_ops.rs :: mod repr :: square_dword_spilled
fn square_dword_spilled(dw: DoubleWord) -> Repr
/*@ ensures ret.v() == (dw as int) * (dw as int), @*/
{
    let (lo, hi) = math::mul_add_carry_dword(dw, dw, 0);
    let mut buffer = Buffer::allocate(4);
    let (n0, n1) = split_dword(lo);
    buffer.push(n0);
    buffer.push(n1);
    let (n2, n3) = split_dword(hi);
    buffer.push(n2);
    buffer.push(n3);
    /*@ proof { lemma_val4(buffer@); } @*/
    Repr::from_buffer(buffer)
}
