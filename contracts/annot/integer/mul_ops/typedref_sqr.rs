//@ item: integer/src/mul_ops.rs :: mod repr :: impl TypedReprRef<'_> :: sqr
pub fn sqr(&self) -> Repr
/*@ #[hoist(Self = TypedReprRef, Name = typedref_sqr)]
    requires self.wf(), self.nwords() * 2 <= max_capacity(),     // resource: length of the product buffer
    ensures ret.v() == self.v() * self.v(),
@*/
{
            match self {
                TypedReprRef::RefSmall(dword) => {
                    /*@ proof { if *dword <= Word::MAX as DoubleWord { lemma_word_prod_fits(*dword as int, *dword as int); } } @*/
                    if let Some(word) = shrink_dword(*dword) {
                        Repr::from_dword(extend_word(word) * extend_word(word))
                    } else {
                        square_dword_spilled(*dword)
                    }
                }
                TypedReprRef::RefLarge(words) => square_large(words),
            }
}
