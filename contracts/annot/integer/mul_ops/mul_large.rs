//@ item: integer/src/mul_ops.rs :: mod repr :: mul_large
pub(crate) fn mul_large(lhs: &[Word], rhs: &[Word]) -> Repr
/*@
    requires lhs@.len() >= 2, rhs@.len() >= 2,          // the function's own debug assertion
        normalized(lhs@), normalized(rhs@),             // debug assertion of cmp_in_place (call sites: `Large` magnitudes)
        lhs@.len() + rhs@.len() <= max_capacity(),      // resource: length of the product buffer
    ensures ret.v() == val(lhs@) * val(rhs@),
@*/
{
    debug_assert!(lhs.len() >= 2 && rhs.len() >= 2);

    // shortcut to square if two operands are equal
    if cmp_in_place(lhs, rhs).is_eq() {
        return square_large(lhs);
    }

    let res_len = lhs.len() + rhs.len();
    let mut buffer = Buffer::allocate(res_len);
    buffer.push_zeros(res_len);

    let mut allocation =
        MemoryAllocation::new(mul::memory_requirement_exact(res_len, lhs.len().min(rhs.len())));
    mul::multiply(&mut buffer, lhs, rhs, &mut allocation.memory());
    Repr::from_buffer(buffer)
}
