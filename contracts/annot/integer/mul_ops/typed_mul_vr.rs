//@ item: integer/src/mul_ops.rs :: mod repr :: impl<'r> Mul<TypedReprRef<'r>> for TypedRepr :: mul
fn mul(self, rhs: TypedReprRef) -> Self::Output
/*@ #[hoist(Self = TypedRepr, Name = typed_mul_vr, Output = Repr)]
    requires self.wf(), rhs.wf(),
        self.nwords() + rhs.nwords() <= max_capacity(),      // resource: length of the product buffer
    ensures ret.v() == self.v() * rhs.v(),
@*/
{
            // mul is commutative
            rhs.mul(self)
        }
