//@ item: integer/src/mul_ops.rs :: mod repr :: impl<'l> Mul<TypedRepr> for TypedReprRef<'l> :: mul
fn mul(self, rhs: TypedRepr) -> Repr
/*@ #[hoist(Self = TypedReprRef, Name = typed_mul_rv, Output = Repr)]
    requires self.wf(), rhs.wf(),
        self.nwords() + rhs.nwords() <= max_capacity(),      // resource: length of the product buffer
    ensures ret.v() == self.v() * rhs.v(),
@*/
{
        /*@ proof { lemma_typedref_range(self); lemma_typed_range(rhs); assert(self.v() * rhs.v() == rhs.v() * self.v()) by (nonlinear_arith); } @*/
            match (self, rhs) {
                (RefSmall(dword0), Small(dword1)) => mul_dword(dword0, dword1),
                (RefSmall(dword0), Large(buffer1)) => mul_large_dword(buffer1, dword0),
                (RefLarge(buffer0), Small(dword1)) => mul_large_dword(buffer0.into(), dword1),
                (RefLarge(buffer0), Large(buffer1)) => mul_large(buffer0, &buffer1),
            }
        }
