//@ item: integer/src/mul_ops.rs :: mod repr :: mul_dword_spilled
fn mul_dword_spilled(lhs: DoubleWord, rhs: DoubleWord) -> Repr
/*@ ensures ret.v() == (lhs as int) * (rhs as int), @*/
{
    let (lo, hi) = math::mul_add_carry_dword(lhs, rhs, 0);
    let mut buffer = Buffer::allocate(4);
    let (n0, n1) = split_dword(lo);
    buffer.push(n0);
    buffer.push(n1);
    let (n2, n3) = split_dword(hi);
    buffer.push(n2);
    buffer.push(n3);
    /*@ proof { lemma_val4(buffer@); } @*/
    Repr::from_buffer(buffer)
}
