//@ item: integer/src/mul_ops.rs :: mod repr :: mul_large_dword
pub(crate) fn mul_large_dword(mut buffer: Buffer, rhs: DoubleWord) -> Repr
/*@
    requires buffer@.len() >= 2,                        // call sites: a `Large` magnitude (>= 3 words)
        buffer@.len() + 2 <= max_capacity(),            // resource: the product needs up to 2 more words
    ensures ret.v() == val(buffer@) * (rhs as int),
@*/
{
    /*@ let ghost b0 = buffer@;
        proof { assert(val(b0) * 0 == 0); assert(val(b0) * 1 == val(b0)); } @*/
    match rhs {
        0 => Repr::zero(),
        1 => Repr::from_buffer(buffer),
        dw => {
            if let Some(word) = shrink_dword(dw) {
                /*@ proof {
                    if dw != 0 && (dw & ((dw - 1) as DoubleWord)) == 0 {
                        axiom_dd_tz(dw);
                        lemma_disp_pow2_small(dw, dd_tz(dw));
                    }
                } @*/
                let carry = if dw.is_power_of_two() {
                    shift::shl_in_place(&mut buffer, dw.trailing_zeros())
                } else {
                    mul::mul_word_in_place(&mut buffer, word)
                };
                /*@ let ghost b1 = buffer@;
                    proof { assert(val(b1) + (carry as int) * pw(b0.len() as int) == val(b0) * (dw as int)); } @*/
                buffer.push_resizing(carry);
                /*@ proof { lemma_val_push(b1, carry); assert(val(buffer@) == val(b0) * (rhs as int)); } @*/
                Repr::from_buffer(buffer)
            } else {
                let carry = mul::mul_dword_in_place(&mut buffer, dw);
                /*@ let ghost b1 = buffer@; @*/
                if carry != 0 {
                    let (lo, hi) = split_dword(carry);
                    buffer.ensure_capacity(buffer.len() + 2);
                    buffer.push(lo);
                    buffer.push(hi);
                    /*@ proof { lemma_val_push2(b1, lo, hi); } @*/
                }
                /*@ proof { assert(val(buffer@) == val(b0) * (rhs as int)); } @*/
                Repr::from_buffer(buffer)
            }
        }
    }
}
