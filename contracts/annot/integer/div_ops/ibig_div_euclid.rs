//@ item: integer/src/div_ops.rs :: macro impl_ibig_div_euclid#0 :: @arm
/*@ requires mag1.v() != 0,
    ensures euclid_ok(sv(sign0, mag0.v()), sv(sign1, mag1.v()), ret.0.v(),
                      sv(sign0, mag0.v()) - ret.0.v() * sv(sign1, mag1.v())), @*/
{
        let (q, r) = $mag0.div_rem($mag1);
        /*@ proof { lemma_euclid(sign0, sign1, mag0.v(), mag1.v(), q.v(), r.v()); } @*/
        let q = match ($sign0, r.is_zero()) {
            (Positive, _) | (Negative, true) => q,
            (Negative, false) => q.into_typed().add_one(),
        };
        IBig(q.with_sign($sign0 * $sign1))
}
