//@ item: integer/src/div_ops.rs :: macro impl_ubig_divrem#0 :: @arm
/*@ requires repr1.v() != 0,
    ensures repr0.v() == ret.0.0.v() * repr1.v() + ret.1.0.v(), 0 <= ret.1.0.v() < repr1.v(), ret.0.0.v() >= 0, @*/
{
        let (q, r) = $repr0.div_rem($repr1);
        (UBig(q), UBig(r))
}
