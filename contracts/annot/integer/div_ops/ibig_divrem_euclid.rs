//@ item: integer/src/div_ops.rs :: macro impl_ibig_divrem_euclid#0 :: @arm
/*@ requires mag1.v() != 0,
    ensures euclid_ok(sv(sign0, mag0.v()), sv(sign1, mag1.v()), ret.0.0.v(), ret.1.0.v()), @*/
        match $sign0 {
            Positive => {
                let (q, r) = $mag0.div_rem($mag1);
                /*@ proof { lemma_euclid(sign0, sign1, mag0.v(), mag1.v(), q.v(), r.v()); } @*/
                (IBig(q.with_sign($sign1)), UBig(r))
            }
            Negative => {
                let (mut q, mut r) = $mag0.div_rem($mag1.as_ref());
                /*@ proof { lemma_euclid(sign0, sign1, mag0.v(), mag1.v(), q.v(), r.v()); } @*/
                if !r.is_zero() {
                    q = q.into_typed().add_one();
                    r = $mag1 - r.into_typed();
                }
                (IBig(q.with_sign(-$sign1)), UBig(r))
            }
        }
