//@ item: integer/src/div_ops.rs :: macro impl_ubig_ibig_rem#0 :: @arm
/*@ requires mag1.v() != 0, sign0 == Sign::Positive,
    ensures exists|q: int| #[trigger] trunc_ok(sv(sign0, mag0.v()), sv(sign1, mag1.v()), q, ret.0.v()),
        ret.0.v() >= 0, @*/
{
        debug_assert_eq!($sign0, Positive);
        let _unused = $sign1;
        UBig($mag0 % $mag1)
/*@ proof {
    lemma_divmod(mag0.v(), mag1.v());
    lemma_trunc(sign0, sign1, mag0.v(), mag1.v(), mag0.v() / mag1.v(), mag0.v() % mag1.v());
    assert(trunc_ok(sv(sign0, mag0.v()), sv(sign1, mag1.v()), sv(sign_mul(sign0, sign1), mag0.v() / mag1.v()), ret.0.v()));
} @*/
}
