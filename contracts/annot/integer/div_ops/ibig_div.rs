//@ item: integer/src/div_ops.rs :: macro impl_ibig_div#0 :: @arm
/*@ requires mag1.v() != 0,
    ensures trunc_ok(sv(sign0, mag0.v()), sv(sign1, mag1.v()), ret.0.v(),
                     sv(sign0, mag0.v()) - ret.0.v() * sv(sign1, mag1.v())), @*/
        // truncate towards 0.
        IBig(($mag0 / $mag1).with_sign($sign0 * $sign1))
/*@ proof {
    lemma_divmod(mag0.v(), mag1.v());
    lemma_trunc(sign0, sign1, mag0.v(), mag1.v(), mag0.v() / mag1.v(), mag0.v() % mag1.v());
} @*/
