//@ item: integer/src/div_ops.rs :: macro impl_ibig_rem#0 :: @arm
/*@ requires mag1.v() != 0,
    ensures exists|q: int| #[trigger] trunc_ok(sv(sign0, mag0.v()), sv(sign1, mag1.v()), q, ret.0.v()), @*/
{
        let _unused = $sign1;

        // remainder with truncating division has same sign as lhs.
        IBig(($mag0 % $mag1).with_sign($sign0))
/*@ proof {
    lemma_divmod(mag0.v(), mag1.v());
    lemma_trunc(sign0, sign1, mag0.v(), mag1.v(), mag0.v() / mag1.v(), mag0.v() % mag1.v());
    assert(trunc_ok(sv(sign0, mag0.v()), sv(sign1, mag1.v()), sv(sign_mul(sign0, sign1), mag0.v() / mag1.v()), ret.0.v()));
} @*/
}
