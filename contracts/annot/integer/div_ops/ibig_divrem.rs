//@ item: integer/src/div_ops.rs :: macro impl_ibig_divrem#0 :: @arm
/*@ requires mag1.v() != 0,
    ensures trunc_ok(sv(sign0, mag0.v()), sv(sign1, mag1.v()), ret.0.0.v(), ret.1.0.v()), @*/
{
        // truncate towards 0.
        let (q, r) = $mag0.div_rem($mag1);
        /*@ proof { lemma_trunc(sign0, sign1, mag0.v(), mag1.v(), q.v(), r.v()); } @*/
        (IBig(q.with_sign($sign0 * $sign1)), IBig(r.with_sign($sign0)))
}
