//@ item: integer/src/div_ops.rs :: macro impl_ibig_rem_euclid#0 :: @arm
/*@ requires mag1.v() != 0,
    ensures exists|q: int| #[trigger] euclid_ok(sv(sign0, mag0.v()), sv(sign1, mag1.v()), q, ret.0.v()), @*/
{
        let _unused = $sign1;
        /*@ proof {
            lemma_divmod(mag0.v(), mag1.v());
            lemma_euclid(sign0, sign1, mag0.v(), mag1.v(), mag0.v() / mag1.v(), mag0.v() % mag1.v());
        } @*/
        let repr = match $sign0 {
            Positive => $mag0 % $mag1,
            Negative => {
                let r = $mag0 % $mag1.as_ref();
                if r.is_zero() {
                    r
                } else {
                    $mag1 - r.into_typed()
                }
            }
        };
        UBig(repr)
/*@ proof {
    let q0 = mag0.v() / mag1.v();
    let qw = if sign0 == Sign::Positive { sv(sign1, q0) } else if mag0.v() % mag1.v() == 0 { sv(sign_neg(sign1), q0) } else { sv(sign_neg(sign1), q0 + 1) };
    assert(euclid_ok(sv(sign0, mag0.v()), sv(sign1, mag1.v()), qw, ret.0.v()));
} @*/
}
