//@ item: integer/src/modular/pow.rs :: mod large :: pow_nontrivial
// Sliding-window exponentiation.  With E = exp.v(), r = resid(raw), the main loop keeps
//     val  holds  r^(2 * (E >> (bit+1)))  mod m        ("raw ^ exp[bit..] ignoring the lowest bit")
// (is_pow, lib/mp_lemmas.rs); the table holds r^(2j+1) at entry j (tbl_ok).  The window extraction from the exponent words
// is tied to E by lemma_mp_dword_at / lemma_mp_window_dword / lemma_mp_window_words / lemma_mp_window.
/*@ #[verifier::spinoff_prover] @*/
    fn pow_nontrivial(ring: &ConstLargeDivisor, raw: &ReducedLarge, exp: &UBig) -> ReducedLarge
    /*@
        requires ring_full(ring), red_ok(raw, ring),
            exp.v() >= 2,       // the caller (large::pow) handles 0 and 1
        ensures red_ok(&ret, ring),
            // C13: reduce(a).pow(e) == reduce(a^e), residue in [0, m)
            resid(&ret, ring) == ipow(resid(raw, ring), exp.v()) % modulus(ring),
            0 <= resid(&ret, ring) < modulus(ring),
    @*/
    {
        let n = ring.normalized_divisor.len();
        let window_len = choose_pow_window_len(exp.bit_len());
        /*@
        let ghost r = resid(raw, ring);
        let ghost ev = exp.v();
        let ghost wl = window_len as int;
        let ghost half = pow2(wl - 1);          // number of odd powers r^1, r^3, .. (entry 0 = raw itself is not stored)
        proof {
            lemma_mp_modulus_ge2(ring);
            lemma_mp_one_shl_usize((window_len - 1) as u32);
            assert((1usize << ((window_len - 1) as u32)) >= 1);
        }
        @*/

        // Precomputed table of small odd powers up to 2^window_len, starting from raw^3.
        #[allow(clippy::redundant_closure)]
        let table_words = ((1usize << (window_len - 1)) - 1)
            .checked_mul(n)
            .unwrap_or_else(|| /*@ -> (r0: usize) ensures false @*/ panic_allocate_too_much());
        /*@ proof { assert(table_words as int == (half - 1) * n); } @*/

        let memory_requirement = memory::add_layout(
            memory::array_layout::<Word>(table_words),
            mul_memory_requirement(ring),
        );
        let mut allocation = MemoryAllocation::new(memory_requirement);
        let mut memory = allocation.memory();
        let (table, mut memory) = memory.allocate_slice_fill::<Word>(table_words, 0);

        // val = raw^2
        let mut val = raw.clone();
        /*@ proof {
            lemma_ipow_1(r);
            lemma_valn_bound(raw.0@, raw.0@.len() as int);
            lemma_scaled_lt(crate::val(raw.0@), ring_M(ring), ring_p(ring));
            vstd::arithmetic::div_mod::lemma_small_mod(r as nat, modulus(ring) as nat);
        } @*/
        sqr_in_place(ring, &mut val, &mut memory);
        /*@ proof {
            assert(is_pow(raw.0@, ring, r, 1));
            lemma_mp_is_pow_mul(raw.0@, raw.0@, val.0@, ring, r, 1, 1);
        } @*/

        // raw^(2*i+1) = raw^(2*i-1) * val
        for i in 1..(1 << (window_len - 1))
        /*@ invariant ring_full(ring), red_ok(raw, ring), r == resid(raw, ring), n == ring.normalized_divisor@.len(),
                is_pow(raw.0@, ring, r, 1), is_pow(val.0@, ring, r, 2),
                1 <= wl < 64, wl == window_len as int, half == pow2(wl - 1), __n0 as int == half, 1 <= __i0 <= __n0,
                table@.len() == (half - 1) * n, table@.len() <= usize::MAX, tbl_ok(table@, n as int, ring, r, __i0 as int),
            decreases __n0 - __i0 @*/
        {
            /*@
            let ghost t0 = table@;
            let ghost ii = i as int;
            proof {
                lemma_mp_tbl_bounds(ii, half, n as int);
                assert(0 <= (ii - 1) * (n as int) <= ii * (n as int) <= (half - 1) * (n as int));
                if ii >= 2 {
                    lemma_mp_tbl_bounds(ii - 1, half, n as int);
                    assert(0 <= (ii - 2) * (n as int) <= (ii - 1) * (n as int));
                    assert(tbl_entry(t0, n as int, ii - 1) == t0.subrange((ii - 2) * n, (ii - 1) * n));
                    assert(t0.subrange((ii - 2) * n, ii * n).subrange(0, n as int) =~= tbl_entry(t0, n as int, ii - 1));
                }
            }
            @*/
            let (prev, cur) = if i == 1 {
                (raw.0.as_ref(), &mut table[0..n])
            } else {
                let (prev, cur) = table[(i - 2) * n..i * n].split_at_mut(n);
                (&*prev, cur)
            };
            /*@ proof {
                assert(is_pow(prev@, ring, r, 2 * ii - 1));
                assert(cur@.len() == n);
            } @*/
            cur.copy_from_slice(mul_normalized(ring, prev, &val.0, &mut memory));
            /*@ proof {
                assert(table@.len() == t0.len());
                assert(forall|k: int| 0 <= k < (ii - 1) * n ==> #[trigger] table@[k] == t0[k]);
                let z = table@.subrange((ii - 1) * n, ii * n);
                assert(z =~= cur@);
                lemma_mp_is_pow_mul(prev@, val.0@, z, ring, r, 2 * ii - 1, 2);
                lemma_mp_tbl_step(t0, table@, n as int, ring, r, ii);
            } @*/
        }

        let exp_words = exp.as_words();
        // We already have raw^2 in val.
        // exp.bit_len() >= 2 because exp >= 2.
        /*@ proof { assert(pow2(0) == 1 && pow2(1) == 2 * pow2(0)); lemma_valn_bound(exp_words@, exp_words@.len() as int); } @*/
        let mut bit = exp.bit_len() - 2;
        /*@ proof {
            lemma_mp_top_bit(ev, bit as int + 2);
            lemma_mp_pow2_even(wl);
        } @*/

        loop
        /*@ invariant_except_break
                is_pow(val.0@, ring, r, 2 * (ev / pow2(bit as int + 1))),
            invariant ring_full(ring), red_ok(raw, ring), r == resid(raw, ring), n == ring.normalized_divisor@.len(),
                is_pow(raw.0@, ring, r, 1), ev == exp.v(), ev >= 2, crate::val(exp_words@) == ev, exp_words@.len() <= usize::MAX,
                pow2(bit as int + 1) <= ev,
                1 <= wl < WORD_BITS, wl < 64, wl == window_len as int, half == pow2(wl - 1), half <= usize::MAX,
                table@.len() == (half - 1) * n, table@.len() <= usize::MAX, tbl_ok(table@, n as int, ring, r, half),
            ensures is_pow(val.0@, ring, r, ev),
            decreases bit @*/
        {
            // val = raw ^ exp[bit..] ignoring the lowest bit
            let word_idx = bit / WORD_BITS_USIZE;
            let bit_idx = (bit % WORD_BITS_USIZE) as u32;
            /*@ proof { lemma_mp_bit_in_range(exp_words@, bit as int); } @*/
            let cur_word = exp_words[word_idx];
            /*@
            let ghost k0 = ev / pow2(bit as int + 1);
            let ghost b0 = bit as int;
            let ghost v0 = val.0@;
            proof {
                lemma_mp_bit_test(cur_word, bit_idx);
                lemma_mp_bit_of_word(exp_words@, word_idx as int, bit_idx as int);
                lemma_mp_bit_step(ev, b0);
            }
            @*/
            if cur_word & (1 << bit_idx) != 0 {
                let next_word = if word_idx == 0 {
                    0
                } else {
                    exp_words[word_idx - 1]
                };
                // Get a window of window_len bits, with top bit of 1.
                let (mut window, _) = split_dword(
                    double_word(next_word, cur_word) >> (bit_idx + 1 + WORD_BITS - window_len),
                );
                /*@
                let ghost w0 = window;
                let ghost sh = (bit_idx + 1 + WORD_BITS - window_len) as u32;
                let ghost dwv = next_word as int + (cur_word as int) * B();
                proof {
                    let nw = next_word as int; let cw = cur_word as int;
                    assert(0 <= dwv < B() * B()) by (nonlinear_arith) requires 0 <= nw < B(), 0 <= cw < B(), dwv == nw + cw * B();
                    assert(exists|hi: Word| w0 as int + #[trigger] ((hi as int) * B()) == ((dwv as DoubleWord) >> sh) as int);
                }
                let ghost w_hi = choose|hi: Word| w0 as int + #[trigger] ((hi as int) * B()) == ((dwv as DoubleWord) >> sh) as int;
                let ghost ones = (pow2(wl) - 1) as Word;
                proof { lemma_sh_pow2_mono(wl, WORD_BITS as int); lemma_sh_pow2_bits(); }
                @*/
                window &= math::ones_word(window_len);
                /*@
                let ghost wd = window as int;
                proof {
                    lemma_mp_window_words(dwv as DoubleWord, sh, w0, w_hi, ones, window_len);
                    let lh = lemma_mp_dword_at(exp_words@, word_idx as int, next_word as int);
                    lemma_mp_window_dword(ev, lh.0, dwv, lh.1, word_idx as int, bit_idx as int, wl);
                    lemma_mp_tz(window);
                    lemma_mp_window(ev, b0, wl, wd, mp_tz(window) as int);
                }
                @*/
                // Shift right to make the window odd.
                let num_bits = window_len - window.trailing_zeros();
                window >>= window_len - num_bits;
                /*@
                let ghost nb = num_bits as int;
                let ghost win = window as int;
                proof {
                    assert(win == wd / pow2(wl - nb));
                    lemma_mp_odd_and1(window);
                }
                @*/
                /*@ let ghost mut kc: int = 2 * k0;
                    proof { assert(pow2(0) == 1); assert((2 * k0) * pow2(0) == 2 * k0) by (nonlinear_arith) requires pow2(0) == 1; } @*/
                // val := val^2^(num_bits-1)
                for _ in 0..num_bits - 1
                /*@ invariant ring_full(ring), n == ring.normalized_divisor@.len(), __n1 == num_bits - 1, __i1 <= __n1,
                        k0 >= 0, r == resid(raw, ring), kc >= 0, kc == (2 * k0) * pow2(__i1 as int),
                        is_pow(val.0@, ring, r, kc),
                    decreases __n1 - __i1 @*/
                {
                    /*@ let ghost v1 = val.0@; @*/
                    sqr_in_place(ring, &mut val, &mut memory);
                    /*@ proof {
                        lemma_mp_is_pow_mul(v1, v1, val.0@, ring, r, kc, kc);
                        lemma_mp_sqr_exp(2 * k0, __i1 as int);
                        kc = kc + kc;
                    } @*/
                }
                bit -= (num_bits as usize) - 1;
                // Now val = raw ^ exp[bit..] ignoring the num_bits lowest bits.
                // val = val * raw^window from precomputed table.
                debug_assert!(window & 1 == 1);
                let entry_idx = (window >> 1) as usize;
                /*@ proof {
                    lemma_mp_entry_idx(win, nb, wl, entry_idx as int);
                    if entry_idx >= 1 {
                        lemma_mp_tbl_bounds(entry_idx as int, half, n as int);
                        assert(0int <= (entry_idx - 1) * n <= entry_idx * n <= (half - 1) * n);
                    }
                } @*/
                let entry = if entry_idx == 0 {
                    &raw.0
                } else {
                    &table[(entry_idx - 1) * n..entry_idx * n]
                };
                /*@ proof {
                    if entry_idx >= 1 { assert(entry@ == tbl_entry(table@, n as int, entry_idx as int)); }
                    assert(is_pow(entry@, ring, r, win));
                } @*/
                let prod = mul_normalized(ring, &val.0, entry, &mut memory);
                /*@ let ghost v2 = val.0@; @*/
                val.0.copy_from_slice(prod);
                /*@ proof {
                    lemma_mp_is_pow_mul(v2, entry@, val.0@, ring, r, kc, win);
                    lemma_mp_window_exp(k0, nb, win, ev / pow2(bit as int));
                } @*/
            }
            // val = raw ^ exp[bit..]
            /*@ proof { assert(is_pow(val.0@, ring, r, ev / pow2(bit as int))); } @*/
            if bit == 0 {
                /*@ proof { lemma_mp_div1(ev); } @*/
                break;
            }
            bit -= 1;
            /*@ let ghost v3 = val.0@; let ghost k3 = ev / pow2(bit as int + 1); @*/
            sqr_in_place(ring, &mut val, &mut memory);
            /*@ proof {
                lemma_mp_div_nonneg(ev, bit as int + 1);
                lemma_mp_is_pow_mul(v3, v3, val.0@, ring, r, k3, k3);
                lemma_sh_pow2_mono(bit as int + 1, b0 + 1);
            } @*/
        }
        /*@ proof {
            lemma_mp_modulus_ge2(ring);
            lemma_valn_bound(val.0@, val.0@.len() as int);
            lemma_scaled_lt(crate::val(val.0@), ring_M(ring), ring_p(ring));
        } @*/
        val
    }
