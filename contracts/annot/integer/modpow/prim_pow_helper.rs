//@ item: integer/src/modular/pow.rs :: macro impl_mod_pow_for_primitive#0 :: mod $ns :: pow_helper
// "lhs^2^bits * rhs^exp[..bits] (in the modulo ring)"
            fn pow_helper(ring: &$ring, lhs: $raw, rhs: $raw, exp: Word, mut bits: u32) -> $raw
            /*@
                requires p_wf(ring), p_ok(ring, lhs), p_ok(ring, rhs), bits <= WORD_BITS,
                ensures p_ok(ring, ret),
                    p_res(ring, ret) == (ipow(p_res(ring, lhs), pow2(bits as int))
                        * ipow(p_res(ring, rhs), (exp as int) % pow2(bits as int))) % p_m(ring),
            @*/
            {
                let mut res = lhs;
                /*@
                let ghost bits0 = bits as int;
                let ghost l = p_res(ring, lhs);
                let ghost r = p_res(ring, rhs);
                let ghost m = p_m(ring);
                let ghost x = (exp as int) % pow2(bits0);
                proof {
                    lemma_p_res_range(ring, lhs);
                    lemma_p_res_range(ring, rhs);
                    lemma_mp_acc_init(l, r, m);
                    lemma_mp_helper_start(exp as int, bits0);
                }
                @*/
                while bits > 0
                /*@ invariant p_wf(ring), p_ok(ring, res), p_ok(ring, rhs), r == p_res(ring, rhs), m == p_m(ring), 0 <= r < m,
                        bits <= bits0 <= WORD_BITS, x == (exp as int) % pow2(bits0), x / pow2(bits as int) >= 0,
                        pow2(bits0 - bits) >= 1,
                        mp_acc(p_res(ring, res), l, r, pow2(bits0 - bits), x / pow2(bits as int), m),
                    decreases bits @*/
                {
                    /*@ let ghost a0 = pow2(bits0 - bits); let ghost q0 = x / pow2(bits as int); let ghost acc0 = p_res(ring, res); @*/
                    res.0 = ring.0.sqr(res.0);
                    bits -= 1;
                    /*@
                    let ghost acc1 = p_res(ring, res);
                    proof {
                        lemma_mp_acc_sqr(acc0, acc1, l, r, a0, q0, m);
                        lemma_mp_helper_bits(exp as int, bits0, bits as int);
                        lemma_mp_bit_test(exp, bits);
                        lemma_sh_pow2_pos(bits0 - bits);
                    }
                    @*/
                    if exp & (1 << bits) != 0 {
                        res.0 = ring.0.mul(&res.0, &rhs.0);
                        /*@ proof { lemma_mp_acc_mul(acc1, p_res(ring, res), l, r, 2 * a0, 2 * q0, m); } @*/
                    }
                }
                /*@ proof { lemma_mp_div1(x); } @*/
                res
            }
