//@ item: integer/src/modular/pow.rs :: mod large :: choose_pow_window_len
    fn choose_pow_window_len(n: usize) -> u32
    /*@
        // "1 <= window_size < min(WORD_BITS, usize::BIT_SIZE)": all that pow_nontrivial relies on (WHICH width is chosen
        // only matters for speed)
        ensures 1 <= ret < WORD_BITS, ret < 64,
    @*/
    {
        let cost = |window_size /*@ : u32 @*/| /*@ -> (r: usize) requires 1 <= window_size < 64, mp_cost_ok(n, window_size), @*/ (1usize << (window_size - 1)) - 1 + n / (window_size as usize + 1);
        let mut window_size = 1;
        /*@ proof { lemma_mp_cost_ok(n, 1); } @*/
        let mut c = cost(window_size);
        while window_size + 1 < WORD_BITS.min(usize::BIT_SIZE)
        /*@ invariant 1 <= window_size < WORD_BITS, window_size < 64,
                forall|w: u32| 1 <= w < 64 && mp_cost_ok(n, w) ==> cost.requires((w,)),
            decreases 64 - window_size @*/
        {
            /*@ proof { lemma_mp_cost_ok(n, (window_size + 1) as u32); } @*/
            let c2 = cost(window_size + 1);
            if c <= c2 {
                break;
            }
            window_size += 1;
            c = c2;
        }
        window_size
    }
