//@ item: integer/src/modular/pow.rs :: macro impl_mod_pow_for_primitive#0 :: mod $ns :: pow_nontrivial
            fn pow_nontrivial(ring: &$ring, raw: $raw, exp_words: &[Word]) -> $raw
            /*@
                requires p_wf(ring), p_ok(ring, raw), 1 <= exp_words@.len() <= usize::MAX,
                ensures p_ok(ring, ret),
                    p_res(ring, ret) == ipow(p_res(ring, raw), val(exp_words@)) % p_m(ring),
            @*/
            {
                /*@ let ghost r = p_res(ring, raw); let ghost m = p_m(ring);
                    proof { lemma_mp_hi_ends(exp_words@); } @*/
                let mut n = exp_words.len() - 1;
                let mut res = pow_word(ring, raw, exp_words[n]); // apply the top word
                while n != 0
                /*@ invariant p_wf(ring), p_ok(ring, raw), p_ok(ring, res), r == p_res(ring, raw), m == p_m(ring),
                        n < exp_words@.len(), mp_hi(exp_words@, n as int) >= 0,
                        p_res(ring, res) == ipow(r, mp_hi(exp_words@, n as int)) % m,
                    decreases n @*/
                {
                    n -= 1;
                    /*@ proof {
                        let l = p_res(ring, res);
                        let k = mp_hi(exp_words@, n as int + 1);
                        let w = exp_words@[n as int] as int;
                        let out = (ipow(l, pow2(WORD_BITS as int)) * ipow(r, w % pow2(WORD_BITS as int))) % m;
                        lemma_mp_hi_step(exp_words@, n as int);
                        lemma_mp_lo_mod(w);
                        lemma_sh_pow2_bits();
                        lemma_mp_helper_finish(r, m, k, l, WORD_BITS as int, w, out);
                        assert(k * pow2(WORD_BITS as int) + w == mp_hi(exp_words@, n as int)) by (nonlinear_arith)
                            requires mp_hi(exp_words@, n as int) == w + B() * k, pow2(WORD_BITS as int) == B();
                    } @*/
                    res = pow_helper(ring, res, raw, exp_words[n], WORD_BITS);
                }
                res
            }
