//@ item: integer/src/modular/pow.rs :: macro impl_mod_pow_for_primitive#0 :: mod $ns :: pow
            pub(super) fn pow(ring: &$ring, raw: $raw, exp: &UBig) -> $raw
            /*@
                requires p_wf(ring), p_ok(ring, raw),
                ensures p_ok(ring, ret),
                    // C13: reduce(a).pow(e) == reduce(a^e) for every exponent, residue in [0, m)
                    p_res(ring, ret) == ipow(p_res(ring, raw), exp.v()) % p_m(ring),
                    0 <= p_res(ring, ret) < p_m(ring),
            @*/
            {
                /*@ let ghost r = p_res(ring, raw); let ghost m = p_m(ring); @*/
                match exp.repr() {
                    RefSmall(dword) => {
                        let (lo, hi) = split_dword(dword);
                        if hi == 0 {
                            pow_word(ring, raw, lo)
                        } else {
                            let res = pow_word(ring, raw, hi);
                            /*@ proof {
                                let l = p_res(ring, res);
                                let out = (ipow(l, pow2(WORD_BITS as int)) * ipow(r, (lo as int) % pow2(WORD_BITS as int))) % m;
                                lemma_mp_lo_mod(lo as int);
                                lemma_sh_pow2_bits();
                                lemma_mp_helper_finish(r, m, hi as int, l, WORD_BITS as int, lo as int, out);
                                assert((hi as int) * pow2(WORD_BITS as int) + lo as int == dword as int) by (nonlinear_arith)
                                    requires lo as int + (hi as int) * B() == dword as int, pow2(WORD_BITS as int) == B();
                            } @*/
                            pow_helper(ring, res, raw, lo, WORD_BITS)
                        }
                    }
                    RefLarge(words) => pow_nontrivial(ring, raw, words),
                }
                /*@ proof { lemma_p_res_range(ring, ret); } @*/
            }
