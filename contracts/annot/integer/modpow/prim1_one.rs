//@ item: integer/src/modular/repr.rs :: impl ReducedWord :: one
    pub const fn one(ring: &ConstSingleDivisor) -> Self
    /*@
        requires p_wf(ring),
        ensures p_ok(ring, ret),                          // is_valid: aligned and below the stored modulus
            p_res(ring, ret) == 1int % p_m(ring),            // C13: the residue of 1 (0 in the ring of modulus 1)
    @*/
    {
        /*@
        let ghost p = pow2(ring.0.sh());
        let ghost m = p_m(ring);
        proof {
            lemma_sh_pow2_pos(ring.0.sh());
            lemma_sh_one_shl_w(ring.0.sh() as u32);       // (1 << shift) == 2^shift
            lemma_mp_div_of_multiple(1, p);
            lemma_mp_div_of_multiple(0, p);
            assert(1 * p == p && 0 * p == 0);
            assert(m * p >= p) by (nonlinear_arith) requires m >= 1, p >= 1;
            if m >= 2 {
                assert(m * p >= 2 * p) by (nonlinear_arith) requires m >= 2, p >= 1;
                vstd::arithmetic::div_mod::lemma_small_mod(1, m as nat);
            } else {
                assert(1 * p == m * p);
            }
        }
        @*/
        let one = 1 << ring.shift();
        // the residue of 1 modulo 1 is 0
        Self(if one == ring.normalized_divisor() { 0 } else { one })
    }
