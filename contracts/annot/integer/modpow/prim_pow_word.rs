//@ item: integer/src/modular/pow.rs :: macro impl_mod_pow_for_primitive#0 :: mod $ns :: pow_word
            pub(super) fn pow_word(ring: &$ring, raw: $raw, exp: Word) -> $raw
            /*@
                requires p_wf(ring), p_ok(ring, raw),
                ensures p_ok(ring, ret),
                    // C13: reduce(a).pow(e) == reduce(a^e), every modulus m >= 1 and every exponent (0 included)
                    p_res(ring, ret) == ipow(p_res(ring, raw), exp as int) % p_m(ring),
            @*/
            {
                /*@
                let ghost r = p_res(ring, raw);
                let ghost m = p_m(ring);
                proof {
                    lemma_p_res_range(ring, raw);
                    lemma_ipow_1(r);
                    lemma_ipow_2(r);
                    vstd::arithmetic::div_mod::lemma_small_mod(r as nat, m as nat);
                }
                @*/
                match exp {
                    0 => <$raw>::one(ring),
                    1 => raw, // no-op
                    2 => $raw(ring.0.sqr(raw.0)),
                    _ => {
                        /*@ proof { lemma_mp_top_bit_word(exp); } @*/
                        let bits = WORD_BITS - 1 - exp.leading_zeros();
                        /*@ proof {
                            // exp == 2^bits + (exp mod 2^bits):  r^(2^bits) * r^(exp mod 2^bits) == r^exp
                            let p = pow2(bits as int);
                            let x = (exp as int) % p;
                            lemma_sh_pow2_pos(bits as int);
                            lemma_ipow_add(r, p, x);
                        } @*/
                        pow_helper(ring, raw, raw, exp, bits)
                    }
                }
            }
