//@ item: integer/src/modular/pow.rs :: macro impl_mod_pow_for_primitive#0 :: mod $ns :: pow_word
            pub(super) fn pow_word(ring: &$ring, raw: $raw, exp: Word) -> $raw
            /*@
                requires p_wf(ring), p_ok(ring, raw),
                    // DEFECT REGION EXCLUDED: in the ring of modulus 1 `one(ring)` stores 2^(BITS-1) == the stored modulus (not a
                    // valid element; its residue reads 1 instead of 0), so pow(0) is wrong there (single-word rings only)
                    p_m(ring) >= 2 || exp != 0,
                ensures p_ok(ring, ret),
                    // C13: reduce(a).pow(e) == reduce(a^e)
                    p_res(ring, ret) == ipow(p_res(ring, raw), exp as int) % p_m(ring),
            @*/
            {
                /*@
                let ghost r = p_res(ring, raw);
                let ghost m = p_m(ring);
                proof {
                    lemma_p_res_range(ring, raw);
                    lemma_ipow_1(r);
                    lemma_ipow_2(r);
                    vstd::arithmetic::div_mod::lemma_small_mod(r as nat, m as nat);
                    if m >= 2 { vstd::arithmetic::div_mod::lemma_small_mod(1, m as nat); }
                }
                @*/
                match exp {
                    0 => <$raw>::one(ring),
                    1 => raw, // no-op
                    2 => $raw(ring.0.sqr(raw.0)),
                    _ => {
                        /*@ proof { lemma_mp_top_bit_word(exp); } @*/
                        let bits = WORD_BITS - 1 - exp.leading_zeros();
                        /*@ proof {
                            // exp == 2^bits + (exp mod 2^bits):  r^(2^bits) * r^(exp mod 2^bits) == r^exp
                            let p = pow2(bits as int);
                            let x = (exp as int) % p;
                            lemma_sh_pow2_pos(bits as int);
                            lemma_ipow_add(r, p, x);
                        } @*/
                        pow_helper(ring, raw, raw, exp, bits)
                    }
                }
            }
