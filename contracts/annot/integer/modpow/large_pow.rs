//@ item: integer/src/modular/pow.rs :: mod large :: pow
    pub(super) fn pow(ring: &ConstLargeDivisor, raw: &ReducedLarge, exp: &UBig) -> ReducedLarge
    /*@
        requires ring_full(ring), red_ok(raw, ring),
            // a ConstLargeDivisor is only built from a Buffer (div_const.rs:145): its length is within Buffer::MAX_CAPACITY
            ring.normalized_divisor@.len() <= (usize::MAX as int) / (WORD_BITS as int),
        ensures red_ok(&ret, ring),
            // C13: reduce(a).pow(e) == reduce(a^e) for EVERY exponent e >= 0, residue in [0, m)
            resid(&ret, ring) == ipow(resid(raw, ring), exp.v()) % modulus(ring),
            0 <= resid(&ret, ring) < modulus(ring),
    @*/
    {
        /*@ proof {
            lemma_mp_modulus_ge2(ring);
            lemma_valn_bound(raw.0@, raw.0@.len() as int);
            lemma_scaled_lt(crate::val(raw.0@), ring_M(ring), ring_p(ring));
            lemma_ipow_1(resid(raw, ring));
            vstd::arithmetic::div_mod::lemma_small_mod(resid(raw, ring) as nat, modulus(ring) as nat);
            vstd::arithmetic::div_mod::lemma_small_mod(1, modulus(ring) as nat);
        } @*/
        if exp.is_zero() {
            ReducedLarge::one(ring)
        } else if exp.is_one() {
            raw.clone()
        } else {
            pow_nontrivial(ring, raw, exp)
        }
    }
