//@ item: integer/src/modular/repr.rs :: impl ReducedLarge :: one
    pub fn one(ring: &ConstLargeDivisor) -> Self
    /*@
        requires ring_full(ring),
            // a ConstLargeDivisor is only built from a Buffer (div_const.rs:145): its length is within Buffer::MAX_CAPACITY
            ring.normalized_divisor@.len() <= (usize::MAX as int) / (WORD_BITS as int),
        ensures red_ok(&ret, ring), crate::val(ret.0@) == ring_p(ring),
            resid(&ret, ring) == 1,          // C13: the unit of the ring (pow(0))
    @*/
    {
        let modulus = &ring.normalized_divisor;
        let mut buf = Buffer::allocate_exact(modulus.len());
        /*@ proof { lemma_sh_one_shl_w(ring.shift); } @*/
        buf.push(1 << ring.shift);
        buf.push_zeros(modulus.len() - 1);
        /*@ proof {
            let s = buf@;
            let p = ring_p(ring);
            assert(s[0] as int == p);
            lemma_val_prefix(s, 1);
            lemma_valn1(s);
            lemma_mp_modulus_ge2(ring);
            lemma_exact_div(ring_M(ring), p);
            let m = crate::modulus(ring);
            assert(m * p >= 2 * p) by (nonlinear_arith) requires m >= 2, p >= 1;
            lemma_div_of_multiple(1, p);
            assert(1 * p == p);
        } @*/
        Self(buf.into_boxed_slice())
    }
