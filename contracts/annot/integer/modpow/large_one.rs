//@ item: integer/src/modular/repr.rs :: impl ReducedLarge :: one
    pub fn one(ring: &ConstLargeDivisor) -> Self
    /*@
        requires ring_full(ring),
        ensures red_ok(&ret, ring), val(ret.0@) == ring_p(ring), resid(&ret, ring) == 1,
    @*/
    {
        let modulus = &ring.normalized_divisor;
        let mut buf = Buffer::allocate_exact(modulus.len());
        buf.push(1 << ring.shift);
        buf.push_zeros(modulus.len() - 1);
        Self(buf.into_boxed_slice())
    }
