//@ item: integer/src/div_const.rs :: impl ConstLargeDivisor :: rem_large
pub fn rem_large(&self, mut words: Buffer) -> Buffer
/*@
    requires ring_conv(self), 3 <= words@.len() < max_capacity(),
    ensures ret@.len() <= self.normalized_divisor@.len(),
        // (words << shift) mod M
        val(ret@) == (val(words@) * ring_p(self)) % ring_M(self), val(ret@) < ring_M(self),
@*/
{
    /*@
    let ghost w0 = words@;
    let ghost x = val(w0) * ring_p(self);
    let ghost mv = ring_M(self);
    let ghost n = self.normalized_divisor@.len() as int;
    @*/
    // shift
    let carry = shift::shl_in_place(&mut words, self.shift);
    words.push_resizing(carry);
    /*@ proof {
        // (no annotation between the two statements above: they change together)
        // the words between the two statements (after the shift, before the push), named without an annotation there
        assert(exists|m: Seq<Word>| m.len() == w0.len() && #[trigger] val(m) + (carry as int) * pw(w0.len() as int) == x
            && words@ == (if carry != 0 { m.push(carry) } else { m }));
        let w1 = choose|m: Seq<Word>| m.len() == w0.len() && #[trigger] val(m) + (carry as int) * pw(w0.len() as int) == x
            && words@ == (if carry != 0 { m.push(carry) } else { m });
        if carry != 0 { lemma_val_push(w1, carry); }
        else { assert((carry as int) * pw(w0.len() as int) == 0) by (nonlinear_arith) requires carry as int == 0; }
        assert(val(words@) == x);
        lemma_norm_half(self.normalized_divisor@, self.fast_div_top);
        lemma_valn_bound(words@, words@.len() as int);
    } @*/

    // reduce
    let modulus = &self.normalized_divisor;
    if words.len() >= modulus.len() {
        let mut allocation =
            MemoryAllocation::new(div::memory_requirement_exact(words.len(), modulus.len()));
        let _overflow = div::div_rem_in_place(
            &mut words,
            modulus,
            self.fast_div_top,
            &mut allocation.memory(),
        );
        /*@ let ghost w2 = words@; let ghost len = w2.len() as int; @*/
        words.truncate(modulus.len());
        /*@ proof {
            let q = val(w2.subrange(n, len)) + b2i(_overflow) * pw(len - n);
            lemma_valn_bound(w2.subrange(0, n), n);
            vstd::arithmetic::div_mod::lemma_fundamental_div_mod_converse(x, mv, q, val(w2.subrange(0, n)));
        } @*/
    } /*@ else { proof {
        lemma_short_lt(words@, n, mv);
        vstd::arithmetic::div_mod::lemma_small_mod(x as nat, mv as nat);
    } } @*/
    words
}
