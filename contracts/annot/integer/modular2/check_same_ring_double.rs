//@ item: integer/src/modular/repr.rs :: impl<'a> Reduced<'a> :: check_same_ring_double
pub(crate) fn check_same_ring_double(lhs: &ConstDoubleDivisor, rhs: &ConstDoubleDivisor)
/*@[!must_panic] requires same_object(lhs, rhs), @*/      // same ring: returns normally (the panic is unreachable)
/*@[must_panic] requires !same_object(lhs, rhs), ensures false, @*/   // C13: mixing different ConstDivisor instances panics
{
    if !ptr::eq(lhs, rhs) {
        // Equality is identity: two rings are not equal even if they have the same modulus.
        panic_different_rings();
    }
}
