//@ item: integer/src/div_const.rs :: impl ConstLargeDivisor :: rem_repr
pub fn rem_repr(&self, x: TypedRepr) -> Buffer
/*@
    requires ring_conv(self), x.wf(), x matches TypedRepr::Large(b) ==> b@.len() < max_capacity(),
    ensures ret@.len() <= self.normalized_divisor@.len(),
        // (x << shift) mod M
        val(ret@) == (x.v() * ring_p(self)) % ring_M(self), val(ret@) < ring_M(self),
@*/
{
    match x {
        TypedRepr::Small(dword) => {
            let (lo, mid, hi) = shl_dword(dword, self.shift);
            let mut buffer = Buffer::allocate_exact(self.normalized_divisor.len());
            buffer.push(lo);
            buffer.push(mid);
            buffer.push(hi);
            /*@ proof {
                let p = ring_p(self);
                let mv = ring_M(self);
                lemma_pow2_pos(self.shift as int);
                lemma_exact_div(mv, p);
                lemma_val3(buffer@);
                lemma_small_lt(dword as int, p, mv / p, mv, self.normalized_divisor@.len() as int);
                vstd::arithmetic::div_mod::lemma_small_mod(((dword as int) * p) as nat, mv as nat);
            } @*/

            // because ConstLargeDivisor is used only for integer with more than two words,
            // word << ring.shift() must be smaller than the normalized modulus
            buffer
        }
        TypedRepr::Large(words) => self.rem_large(words),
    }
}
