//@ item: integer/src/modular/mul.rs :: sqr_normalized
// spinoff_prover + hidden valn/pw: the function is checked in its own solver instance with the recursive definitions
// folded, so that a WRONG body ends in a failed obligation within seconds instead of exhausting the resource limit
// (seeded change C13_r2_2: dropped conditional subtraction ran into `rlimit exceeded`).
/*@ #[verifier::spinoff_prover] @*/
pub(crate) fn sqr_normalized<'a>(
    ring: &ConstLargeDivisor,
    a: &[Word],
    memory: &'a mut Memory,
) -> &'a [Word]
/*@
    requires ring_full(ring), a@.len() == ring.normalized_divisor@.len(),
        val(a@) % ring_p(ring) == 0,       // `shift` zero low bits (ReducedLarge::is_valid)
    ensures ret@.len() == ring.normalized_divisor@.len(),
        val(ret@) < ring_M(ring),
        // stored numbers: (A * A >> shift) mod M
        val(ret@) == ((val(a@) * val(a@)) / ring_p(ring)) % ring_M(ring),
        // C13 (square): again aligned, and the mathematical residue is (ra * ra) mod m
        val(ret@) % ring_p(ring) == 0,
        val(ret@) / ring_p(ring) == ((val(a@) / ring_p(ring)) * (val(a@) / ring_p(ring))) % modulus(ring),
@*/
{
    /*@ hide(valn); hide(pw);   // value reasoning goes through the lemmas below @*/
    let modulus = ring.normalized_divisor.deref();
    let n = modulus.len();
    debug_assert!(a.len() == n);

    // trim the leading zeros in a
    let na = locate_top_word_plus_one(a);
    /*@
    let ghost av = val(a@);
    let ghost p = ring_p(ring);
    let ghost mv = ring_M(ring);
    proof {
        lemma_pow2_pos(ring.shift as int);
        lemma_val_prefix(a@, na as int);
        lemma_norm_half(modulus@, ring.fast_div_top);
        lemma_valn_bound(modulus@, n as int);
    }
    @*/

    // product = a * a
    let (product, mut memory) = memory.allocate_slice_fill::<Word>(n.max(na * 2), 0);
    /*@ let ghost len = product@.len() as int; @*/
    if na == 0 {
        /*@ proof {
            lemma_valn_zero(product@, 0, len);
            assert(valn(a@, 0) == 0 && valn(product@, 0) == 0) by { reveal(valn); }
            lemma_mm_zero(av, av, p, mv);
            lemma_mm_finish(av, av, mv, p, 0);
        } @*/
        return product;
    } else if na == 1 {
        let a0 = extend_word(a[0]);
        /*@ proof {
            let a0i = a0 as int;
            assert(a0i * a0i < B() * B()) by (nonlinear_arith) requires 0 <= a0i < B();
        } @*/
        let (lo, hi) = split_dword(a0 * a0);
        product[0] = lo;
        product[1] = hi;
        /*@ proof {
            lemma_valn2(product@);
            lemma_valn_zero(product@, 2, len);
            lemma_valn1(a@);
        } @*/
    } else {
        sqr::sqr(&mut product[..na * 2], &a[..na], &mut memory);
        /*@ proof {
            lemma_val_prefix(product@, (na * 2) as int);
        } @*/
    }
    /*@ proof {
        assert(val(product@) == av * av);
        lemma_mm_aligned(av, av, p);
        // the bits shifted out below are zero (stated before the statement: nothing here refers to its result)
        assert(((av * av) % p) * pow2((WORD_BITS - ring.shift) as int) == 0) by (nonlinear_arith) requires (av * av) % p == 0;
    } @*/

    // return (product >> shift) % normalized_modulus
    debug_assert_zero!(shift::shr_in_place(product, ring.shift));
    /*@ let ghost x = (av * av) / p; @*/
    if na * 2 > n {
        let _overflow = div::div_rem_in_place(product, modulus, ring.fast_div_top, &mut memory);
        /*@ proof {
            let q = val(product@.subrange(n as int, len)) + b2i(_overflow) * pw(len - n);
            let r = val(product@.subrange(0, n as int));
            lemma_valn_bound(product@.subrange(0, n as int), n as int);
            vstd::arithmetic::div_mod::lemma_fundamental_div_mod_converse(x, mv, q, r);
            lemma_mm_finish(av, av, mv, p, r);
        } @*/
        &product[..n]
    } else {
        /*@ let ghost before = product@; proof { lemma_valn_bound(product@, len); } @*/
        if cmp::cmp_same_len(product, modulus).is_ge() {
            debug_assert_zero!(add::sub_same_len_in_place(product, modulus));
        }
        /*@ proof {
            // (no annotation inside the block above: it may be deleted as a whole by a code change)
            lemma_valn_bound(product@, len);
            lemma_mm_short(x, mv, pw(n as int), val(product@));
            lemma_mm_finish(av, av, mv, p, val(product@));
        } @*/
        product
    }
}
