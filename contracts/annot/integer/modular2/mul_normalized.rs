//@ item: integer/src/modular/mul.rs :: mul_normalized
pub(crate) fn mul_normalized<'a>(
    ring: &ConstLargeDivisor,
    a: &[Word],
    b: &[Word],
    memory: &'a mut Memory,
) -> &'a [Word]
/*@
    requires ring_full(ring), a@.len() == ring.normalized_divisor@.len(), b@.len() == a@.len(),
        // stored residues carry `shift` zero low bits (ReducedLarge::is_valid); the code relies on it when it shifts the
        // product right by `shift` (debug_assert_zero! on the shifted-out bits)
        val(a@) % ring_p(ring) == 0, val(b@) % ring_p(ring) == 0,
    ensures ret@.len() == ring.normalized_divisor@.len(),
        val(ret@) < ring_M(ring),
        // stored numbers: (A * B >> shift) mod M
        val(ret@) == ((val(a@) * val(b@)) / ring_p(ring)) % ring_M(ring),
        // C13 (product): again aligned, and the mathematical residue is (ra * rb) mod m
        val(ret@) % ring_p(ring) == 0,
        val(ret@) / ring_p(ring) == ((val(a@) / ring_p(ring)) * (val(b@) / ring_p(ring))) % modulus(ring),
@*/
{
    let modulus = ring.normalized_divisor.deref();
    let n = modulus.len();
    debug_assert!(a.len() == n && b.len() == n);

    // trim the leading zeros in a, b
    let na = locate_top_word_plus_one(a);
    let nb = locate_top_word_plus_one(b);
    /*@
    let ghost av = val(a@);
    let ghost bv = val(b@);
    let ghost p = ring_p(ring);
    let ghost mv = ring_M(ring);
    proof {
        lemma_pow2_pos(ring.shift as int);
        lemma_val_prefix(a@, na as int);
        lemma_val_prefix(b@, nb as int);
        lemma_norm_half(modulus@, ring.fast_div_top);
        lemma_valn_bound(modulus@, n as int);
    }
    @*/

    // product = a * b
    let (product, mut memory) = memory.allocate_slice_fill::<Word>(n.max(na + nb), 0);
    /*@ let ghost len = product@.len() as int; @*/
    if na | nb == 0 {
        /*@ proof {
            assert(((na | nb) == 0) <==> (na == 0 && nb == 0)) by (bit_vector);
            lemma_valn_zero(product@, 0, len);
            lemma_mm_zero(av, bv, p, mv);
            lemma_mm_finish(av, bv, mv, p, 0);
        } @*/
        return product;
    } else if na == 1 && nb == 1 {
        let (a0, b0) = (extend_word(a[0]), extend_word(b[0]));
        /*@ proof {
            let a0i = a0 as int; let b0i = b0 as int;
            assert(a0i * b0i < B() * B()) by (nonlinear_arith) requires 0 <= a0i < B(), 0 <= b0i < B();
           
        } @*/
        let (lo, hi) = split_dword(a0 * b0);
        product[0] = lo;
        product[1] = hi;
        /*@ proof {
            lemma_valn2(product@);
            lemma_valn_zero(product@, 2, len);
            lemma_valn1(a@);
            lemma_valn1(b@);
        } @*/
    } else {
        mul::multiply(&mut product[..na + nb], &a[..na], &b[..nb], &mut memory);
        /*@ proof {
            lemma_val_prefix(product@, (na + nb) as int);
        } @*/
    }
    /*@ proof {
        assert(val(product@) == av * bv);
        lemma_mm_aligned(av, bv, p);
        // the bits shifted out below are zero (stated before the statement: nothing here refers to its result)
        assert(((av * bv) % p) * pow2((WORD_BITS - ring.shift) as int) == 0) by (nonlinear_arith) requires (av * bv) % p == 0;
    } @*/

    // return (product >> shift) % normalized_modulus
    debug_assert_zero!(shift::shr_in_place(product, ring.shift));
    /*@ let ghost x = (av * bv) / p; @*/
    if na + nb > n {
        let _overflow = div::div_rem_in_place(product, modulus, ring.fast_div_top, &mut memory);
        /*@ proof {
            let q = val(product@.subrange(n as int, len)) + b2i(_overflow) * pw(len - n);
            let r = val(product@.subrange(0, n as int));
            lemma_valn_bound(product@.subrange(0, n as int), n as int);
            vstd::arithmetic::div_mod::lemma_fundamental_div_mod_converse(x, mv, q, r);
            lemma_mm_finish(av, bv, mv, p, r);
        } @*/
        &product[..n]
    } else {
        /*@ let ghost before = product@; proof { lemma_valn_bound(product@, len); } @*/
        if cmp::cmp_same_len(product, modulus).is_ge() {
            debug_assert_zero!(add::sub_same_len_in_place(product, modulus));
        }
        /*@ proof {
            // (no annotation inside the block above: it may be deleted as a whole by a code change)
            lemma_valn_bound(product@, len);
            lemma_mm_short(x, mv, pw(n as int), val(product@));
            lemma_mm_finish(av, bv, mv, p, val(product@));
        } @*/
        product
    }
}
