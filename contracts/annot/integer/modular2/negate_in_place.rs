//@ item: integer/src/modular/add.rs :: negate_in_place
pub(crate) fn negate_in_place(ring: &ConstLargeDivisor, raw: &mut ReducedLarge)
/*@
    requires ring_wf(ring), red_valid(old(raw), ring),
    ensures red_valid(final(raw), ring),
        // stored numbers: the result is THE residue of -x modulo the stored modulus
        mod1(val(final(raw).0@), -val(old(raw).0@), val(ring.normalized_divisor@)),
        // C13 (negation) on the mathematical residues: reduce(-a) == -reduce(a), result in [0, m)
        ring_al(ring) && red_ok(old(raw), ring) ==> red_ok(final(raw), ring)
            && resid(final(raw), ring) == (-resid(old(raw), ring)) % modulus(ring),
@*/
{
    debug_assert!(raw.is_valid(ring));
    /*@ proof {
        lemma_valn_bound(raw.0@, raw.0@.len() as int);
        lemma_valn_bound(ring.normalized_divisor@, ring.normalized_divisor@.len() as int);
        // Both outcomes of the zero test below are prepared HERE, on the initial value: no annotation is anchored on the
        // `if`, its closing brace or behind it, so the special case may be changed or removed without breaking the
        // transplant (a removed special case then fails `red_valid(final(raw))`: -0 would be stored as M).
        if exists|k: int| 0 <= k < raw.0@.len() && raw.0@[k] != 0 {
            let k = choose|k: int| 0 <= k < raw.0@.len() && raw.0@[k] != 0;
            lemma_valn_pos(raw.0@, k, raw.0@.len() as int);
        } else {
            // zero stays zero: raw is not touched
            lemma_valn_zero(raw.0@, 0, raw.0@.len() as int);
            if ring_al(ring) && red_ok(old(raw), ring) {
                lemma_pow2_pos(ring.shift as int);
                lemma_neg_div(val(old(raw).0@), ring_p(ring));
                lemma_mod1_resid(val(raw.0@), -val(old(raw).0@), ring_M(ring), ring_p(ring));
            }
        }
    } @*/
    if !raw.0.iter().all(|w| *w == 0) {
        let overflow = add::sub_same_len_in_place_swap(&ring.normalized_divisor, &mut raw.0);
        /*@ proof {
            lemma_valn_bound(raw.0@, raw.0@.len() as int);
            lemma_b2i_mul(overflow, pw(ring.normalized_divisor@.len() as int));
            if ring_al(ring) && red_ok(old(raw), ring) && val(old(raw).0@) >= 1 {
                lemma_pow2_pos(ring.shift as int);
                lemma_neg_div(val(old(raw).0@), ring_p(ring));
                lemma_mod1_resid(val(raw.0@), -val(old(raw).0@), ring_M(ring), ring_p(ring));
            }
        } @*/
        debug_assert!(!overflow);
    }
}
