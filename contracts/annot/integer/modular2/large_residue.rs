//@ item: integer/src/modular/convert.rs :: impl ReducedLarge :: residue
pub fn residue(&self, ring: &ConstLargeDivisor) -> Buffer
/*@
    requires ring_al(ring), red_ok(self, ring), ring.normalized_divisor@.len() <= max_capacity(),
    // C13: the residue in [0, m): the stored number with the factor 2^shift divided out
    ensures val(ret@) == resid(self, ring), 0 <= val(ret@) < modulus(ring),
@*/
{
    let mut buffer: Buffer = self.0.as_ref().into();
    /*@ proof {
        ax_buffer_from(&*self.0);
        assert(buffer@ == self.0@);
        lemma_pow2_pos(ring.shift as int);
        lemma_valn_bound(self.0@, self.0@.len() as int);
        lemma_scaled_lt(val(self.0@), ring_M(ring), ring_p(ring));
        assert((val(self.0@) % ring_p(ring)) * pow2((WORD_BITS - ring.shift) as int) == 0) by (nonlinear_arith)
            requires val(self.0@) % ring_p(ring) == 0;
    } @*/
    debug_assert_zero!(shift::shr_in_place(&mut buffer, ring.shift));
    buffer
}
