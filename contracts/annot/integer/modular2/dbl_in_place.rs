//@ item: integer/src/modular/add.rs :: dbl_in_place
fn dbl_in_place(ring: &ConstLargeDivisor, raw: &mut ReducedLarge)
/*@
    requires ring_wf(ring), red_valid(old(raw), ring),
    ensures red_valid(final(raw), ring),
        // stored numbers: the result is THE residue of 2x modulo the stored modulus
        mod1(val(final(raw).0@), 2 * val(old(raw).0@), val(ring.normalized_divisor@)),
        // C13 (doubling) on the mathematical residues
        ring_al(ring) && red_ok(old(raw), ring) ==> red_ok(final(raw), ring)
            && resid(final(raw), ring) == (2 * resid(old(raw), ring)) % modulus(ring),
@*/
{
    debug_assert!(raw.is_valid(ring));
    let modulus = &ring.normalized_divisor;
    /*@ proof {
        lemma_valn_bound(raw.0@, raw.0@.len() as int);
        assert(pow2(1) == 2 * pow2(0));
    } @*/
    let overflow = shift::shl_in_place(&mut raw.0, 1) > 0;
    /*@ let ghost c = if overflow { 1int } else { 0int }; @*/
    /*@ proof {
        lemma_valn_bound(raw.0@, raw.0@.len() as int);
        lemma_valn_bound(modulus@, modulus@.len() as int);
        assert(c * pw(modulus@.len() as int) == if overflow { pw(modulus@.len() as int) } else { 0 }) by (nonlinear_arith)
            requires c == (if overflow { 1int } else { 0int });
    } @*/
    if overflow || cmp::cmp_same_len(&raw.0, modulus).is_ge() {
        /*@ let ghost mid = raw.0@; @*/
        let overflow2 = add::sub_same_len_in_place(&mut raw.0, modulus);
        /*@ proof {
            lemma_valn_bound(raw.0@, raw.0@.len() as int);
            lemma_mod_add_fix(val(old(raw).0@), val(old(raw).0@), val(modulus@), val(mid), val(raw.0@), b2i(overflow), b2i(overflow2), pw(modulus@.len() as int));
        } @*/
        debug_assert_eq!(overflow, overflow2);
    }
    /*@ proof {
        if ring_al(ring) && red_ok(old(raw), ring) {
            lemma_pow2_pos(ring.shift as int);
            lemma_dbl_div(val(old(raw).0@), ring_p(ring));
            lemma_mod1_resid(val(raw.0@), 2 * val(old(raw).0@), ring_M(ring), ring_p(ring));
        }
    } @*/
}
