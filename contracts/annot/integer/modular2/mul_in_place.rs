//@ item: integer/src/modular/mul.rs :: mul_in_place
pub(crate) fn mul_in_place(
    ring: &ConstLargeDivisor,
    lhs: &mut ReducedLarge,
    rhs: &ReducedLarge,
    memory: &mut Memory,
)
/*@
    requires ring_full(ring), red_ok(old(lhs), ring), red_ok(rhs, ring),
    ensures red_ok(final(lhs), ring),
        val(final(lhs).0@) == ((val(old(lhs).0@) * val(rhs.0@)) / ring_p(ring)) % ring_M(ring),
        // C13: reduce(a) * reduce(b) == reduce(a * b), residue in [0, m)
        resid(final(lhs), ring) == (resid(old(lhs), ring) * resid(rhs, ring)) % modulus(ring),
@*/
{
    if lhs.0 == rhs.0 {
        // shortcut to squaring
        /*@ proof { assert(lhs.0@ == rhs.0@); } @*/
        let prod = sqr_normalized(ring, &lhs.0, memory);
        lhs.0.copy_from_slice(prod)
    } else {
        let prod = mul_normalized(ring, &lhs.0, &rhs.0, memory);
        lhs.0.copy_from_slice(prod)
    }
}
