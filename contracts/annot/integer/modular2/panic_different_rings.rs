//@ item: integer/src/error.rs :: panic_different_rings
// Rule D4: the crate's diverging panic helper.  Default ("total") variant: precondition `false`, so a verified caller
// proves the panic unreachable under its own precondition (same ring).  `must_panic` variant: it ensures `false` (it
// never returns), so a caller with contract `requires <different rings> ensures false` proves that no normal return is
// possible: mixing rings panics.
pub(crate) const fn panic_different_rings() -> !
/*@[!must_panic] requires false, @*/
/*@[must_panic] ensures false, @*/
{
    panic!("Modulo values from different rings")
}
