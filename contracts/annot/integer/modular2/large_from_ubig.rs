//@ item: integer/src/modular/convert.rs :: impl ReducedLarge :: from_ubig
pub fn from_ubig(x: UBig, ring: &ConstLargeDivisor) -> ReducedLarge
/*@
    requires ring_conv(ring),
        x.nwords() < max_capacity(),    // resource: the carry word of `x << shift` must still fit a Buffer
    ensures red_ok(&ret, ring),
        // stored numbers: (x << shift) mod M
        val(ret.0@) == (x.v() * ring_p(ring)) % ring_M(ring),
        // C13: reduce(x) has the residue x mod m
        resid(&ret, ring) == x.v() % modulus(ring),
@*/
{
    let mut buffer = ring.rem_repr(x.into_repr());
    let modulus_len = ring.normalized_divisor.len();
    buffer.ensure_capacity_exact(modulus_len);
    /*@ let ghost b0 = buffer@; @*/
    buffer.push_zeros(modulus_len - buffer.len());
    /*@ proof {
        lemma_val_zeros(b0, modulus_len - b0.len());
        lemma_pow2_pos(ring.shift as int);
        lemma_from_resid(x.v(), ring_M(ring), ring_p(ring), val(buffer@));
    } @*/
    Self(buffer.into_boxed_slice())
}
