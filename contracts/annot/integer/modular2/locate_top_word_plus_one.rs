//@ item: integer/src/primitive.rs :: locate_top_word_plus_one
pub fn locate_top_word_plus_one(words: &[Word]) -> usize
/*@
    requires words@.len() <= usize::MAX,
    // index of the top non-zero word plus one (0 for a zero number)
    ensures ret <= words@.len(),
        forall|j: int| ret <= j < words@.len() ==> words@[j] == 0,
        ret > 0 ==> words@[ret - 1] != 0,
@*/
{
    for pos in (0..words.len()).rev()
    /*@
        invariant __lo0 == 0, __n0 == words@.len(), __i0 <= __n0,
            forall|j: int| __i0 <= j < __n0 ==> words@[j] == 0,
        decreases __i0
    @*/
    {
        if words[pos] != 0 {
            return pos + 1;
        }
    }
    0
}
