//@ item: integer/src/modular/mul.rs :: sqr_in_place
pub(crate) fn sqr_in_place(ring: &ConstLargeDivisor, raw: &mut ReducedLarge, memory: &mut Memory)
/*@
    requires ring_full(ring), red_ok(old(raw), ring),
    ensures red_ok(final(raw), ring),
        val(final(raw).0@) == ((val(old(raw).0@) * val(old(raw).0@)) / ring_p(ring)) % ring_M(ring),
        // C13: reduce(a)^2 == reduce(a^2), residue in [0, m)
        resid(final(raw), ring) == (resid(old(raw), ring) * resid(old(raw), ring)) % modulus(ring),
@*/
{
    let prod = sqr_normalized(ring, &raw.0, memory);
    raw.0.copy_from_slice(prod)
}
