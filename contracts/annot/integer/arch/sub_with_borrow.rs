//@ item: integer/src/arch/generic/add.rs :: sub_with_borrow
pub fn sub_with_borrow(a: Word, b: Word, borrow: bool) -> (Word, bool)
/*@
    ensures ret.0 as int - b2i(ret.1) * B() == a as int - b as int - b2i(borrow),
@*/
{
    let (diff, b0) = a.overflowing_sub(b);
    let (diff, b1) = diff.overflowing_sub(Word::from(borrow));
    (diff, b0 | b1)
}
