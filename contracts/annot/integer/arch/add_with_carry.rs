//@ item: integer/src/arch/generic/add.rs :: add_with_carry
pub fn add_with_carry(a: Word, b: Word, carry: bool) -> (Word, bool)
/*@
    ensures ret.0 as int + b2i(ret.1) * B() == a as int + b as int + b2i(carry),
@*/
{
    let (sum, c0) = a.overflowing_add(b);
    let (sum, c1) = sum.overflowing_add(Word::from(carry));
    (sum, c0 | c1)
}
