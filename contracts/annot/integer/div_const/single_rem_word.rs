//@ item: integer/src/div_const.rs :: impl ConstSingleDivisor :: rem_word
pub const fn rem_word(&self, word: Word) -> Word
/*@
    requires self.0.wf(),
    // "(word << self.shift) % self" on the normalized divisor
    ensures ret as int == ((word as int) * pow2(self.0.spec_shift() as int)) % self.0.dn(),
@*/
{
    /*@ proof { assert(pow2(0) == 1); assert((word as int) * 1 == word as int); } @*/
    if self.0.shift() == 0 {
        self.0.divider().div_rem_1by1(word).1
    } else {
        /*@ proof { lemma_dc_shl_word(word, self.0.spec_shift(), self.0.dn()); } @*/
        self.0
            .divider()
            .div_rem_2by1(extend_word(word) << self.0.shift())
            .1
    }
}
