//@ item: integer/src/div_const.rs :: mod repr :: div_rem_small_single
fn div_rem_small_single(lhs: DoubleWord, rhs: &ConstSingleDivisor) -> (DoubleWord, Word)
/*@
    requires rhs.0.wf(),
    ensures is_div_rem(lhs as int, rhs.0.orig(), ret.0 as int, ret.1 as int),      // a == q*b + r, 0 <= r < b
@*/
{
    let (lo, mid, hi) = shl_dword(lhs, rhs.0.shift());
    /*@
    let ghost d = rhs.0.dn();
    let ghost p = pow2(rhs.0.spec_shift() as int);
    proof {
        lemma_sh_pow2_pos(rhs.0.spec_shift() as int);
        lemma_dc_single_pre(lhs as int, lo as int, mid as int, hi as int, p, rhs.0.spec_shift(), d);
    }
    @*/
    let (q1, r1) = rhs.0.divider().div_rem_2by1(double_word(mid, hi));
    /*@ proof { lemma_dc_two_steps(lo as int, mid as int + (hi as int) * B(), r1 as int, d); } @*/
    let (q0, r0) = rhs.0.divider().div_rem_2by1(double_word(lo, r1));
    /*@ proof {
        lemma_dc_two_quotients(lo as int, mid as int + (hi as int) * B(), q1 as int, r1 as int, q0 as int, r0 as int, d);
        vstd::arithmetic::div_mod::lemma_fundamental_div_mod(d, p);
        assert(p * (d / p) == rhs.0.orig() * p) by (nonlinear_arith) requires rhs.0.orig() == d / p;
        lemma_dg_unshift_rem(lhs as int, rhs.0.orig(), q0 as int + (q1 as int) * B(), r0 as int, p);
        lemma_sh_shr_div_w(r0, rhs.0.spec_shift());
    } @*/
    (double_word(q0, q1), r0 >> rhs.0.shift())
}
