//@ item: integer/src/div_const.rs :: mod repr :: impl<'r> Rem<&'r ConstDivisorRepr> for TypedRepr :: rem
fn rem(self, rhs: &ConstDivisorRepr) -> Repr
/*@ #[hoist(Self = TypedRepr, Name = typed_rem_const, Output = Repr)]
    requires self.wf(), rhs.wf(),
    // same remainder as plain division by the divisor the ConstDivisor was built from
    ensures is_remainder(self.v(), rhs.value(), ret.v()),
@*/
{
    /*@ proof { lemma_dc_typed_bound(self); lemma_dc_rem_arms(self.v(), self.nwords(), *rhs); } @*/
            match (self, rhs) {
                (Small(dword), ConstDivisorRepr::Single(div)) => {
                    Repr::from_word(div.rem_dword(dword) >> div.0.shift())
                }
                (Small(dword), ConstDivisorRepr::Double(div)) => {
                    Repr::from_dword(div.rem_dword(dword) >> div.0.shift())
                }
                (Small(dword), ConstDivisorRepr::Large(_)) => {
                    // lhs must be less than rhs
                    Repr::from_dword(dword)
                }
                (Large(buffer), ConstDivisorRepr::Single(div)) => {
                    Repr::from_word(div.rem_large(&buffer) >> div.0.shift())
                }
                (Large(buffer), ConstDivisorRepr::Double(div)) => {
                    Repr::from_dword(div.rem_large(&buffer) >> div.0.shift())
                }
                (Large(buffer), ConstDivisorRepr::Large(div)) => rem_large_large(buffer, div),
            }
        }
