//@ item: integer/src/div_const.rs :: mod repr :: impl<'l, 'r> Rem<&'r ConstDivisorRepr> for TypedReprRef<'l> :: rem
fn rem(self, rhs: &ConstDivisorRepr) -> Repr
/*@ #[hoist(Self = TypedReprRef, Name = typedref_rem_const, Output = Repr)]
    requires self.wf(), rhs.wf(),
    // same remainder as plain division by the divisor the ConstDivisor was built from
    ensures is_remainder(self.v(), rhs.value(), ret.v()),
@*/
{
    /*@ proof { lemma_dc_typedref_bound(self); lemma_dc_rem_arms(self.v(), self.nwords(), *rhs); } @*/
            match (self, rhs) {
                (RefSmall(dword), ConstDivisorRepr::Single(div)) => {
                    Repr::from_word(div.rem_dword(dword) >> div.0.shift())
                }
                (RefSmall(dword), ConstDivisorRepr::Double(div)) => {
                    Repr::from_dword(div.rem_dword(dword) >> div.0.shift())
                }
                (RefSmall(dword), ConstDivisorRepr::Large(_)) => {
                    // lhs must be less than rhs
                    Repr::from_dword(dword)
                }
                (RefLarge(words), ConstDivisorRepr::Single(div)) => {
                    Repr::from_word(div.rem_large(words) >> div.0.shift())
                }
                (RefLarge(words), ConstDivisorRepr::Double(div)) => {
                    Repr::from_dword(div.rem_large(words) >> div.0.shift())
                }
                (RefLarge(words), ConstDivisorRepr::Large(div)) => {
                    rem_large_large(words.into(), div)
                }
            }
        }
