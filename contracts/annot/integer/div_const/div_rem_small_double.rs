//@ item: integer/src/div_const.rs :: mod repr :: div_rem_small_double
fn div_rem_small_double(lhs: DoubleWord, rhs: &ConstDoubleDivisor) -> (Word, DoubleWord)
/*@
    requires rhs.0.wf(),
    ensures is_div_rem(lhs as int, rhs.0.orig(), ret.0 as int, ret.1 as int),      // a == q*b + r, 0 <= r < b
@*/
{
    let (lo, mid, hi) = shl_dword(lhs, rhs.0.shift());
    /*@
    let ghost d = rhs.0.dn();
    let ghost p = pow2(rhs.0.spec_shift() as int);
    proof {
        lemma_sh_pow2_pos(rhs.0.spec_shift() as int);
        lemma_dc_double_pre0(lhs as int, lo as int, mid as int, hi as int, p, rhs.0.spec_shift(), d);
    }
    @*/
    let (q, r) = rhs.0.divider().div_rem_3by2(lo, double_word(mid, hi));
    /*@ proof {
        let x = (lhs as int) * p;
        vstd::arithmetic::div_mod::lemma_fundamental_div_mod(x, d);
        vstd::arithmetic::div_mod::lemma_mod_bound(x, d);
        assert(d * (x / d) == (x / d) * d) by (nonlinear_arith);
        vstd::arithmetic::div_mod::lemma_fundamental_div_mod(d, p);
        assert(p * (d / p) == rhs.0.orig() * p) by (nonlinear_arith) requires rhs.0.orig() == d / p;
        lemma_dg_unshift_rem(lhs as int, rhs.0.orig(), q as int, r as int, p);
        lemma_dd_shr_div(r, rhs.0.spec_shift());
    } @*/
    (q, r >> rhs.0.shift())
}
