//@ item: integer/src/div_const.rs :: mod repr :: impl<'r> DivRem<&'r ConstDivisorRepr> for TypedRepr :: div_rem
fn div_rem(self, rhs: &ConstDivisorRepr) -> (Repr, Repr)
/*@ #[hoist(Self = TypedRepr, Name = typed_divrem_const, OutputDiv = Repr, OutputRem = Repr)]
    requires self.wf(), rhs.wf(),
    // same quotient and remainder as plain division by the divisor the ConstDivisor was built from
    ensures is_div_rem(self.v(), rhs.value(), ret.0.v(), ret.1.v()),
@*/
{
    /*@ proof { lemma_dc_typed_bound(self); lemma_dc_rem_arms(self.v(), self.nwords(), *rhs); } @*/
            match (self, rhs) {
                (Small(dword), ConstDivisorRepr::Single(div)) => {
                    let (q, r) = div_rem_small_single(dword, div);
                    (Repr::from_dword(q), Repr::from_word(r))
                }
                (Small(dword), ConstDivisorRepr::Double(div)) => {
                    let (q, r) = div_rem_small_double(dword, div);
                    (Repr::from_word(q), Repr::from_dword(r))
                }
                (Small(dword), ConstDivisorRepr::Large(_)) => {
                    // lhs must be less than rhs
                    (Repr::zero(), Repr::from_dword(dword))
                }
                (Large(mut buffer), ConstDivisorRepr::Single(div)) => {
                    let r = div::fast_div_by_word_in_place(
                        &mut buffer,
                        div.0.shift(),
                        *div.0.divider(),
                    );
                    (Repr::from_buffer(buffer), Repr::from_word(r))
                }
                (Large(mut buffer), ConstDivisorRepr::Double(div)) => {
                    let r = div::fast_div_by_dword_in_place(
                        &mut buffer,
                        div.0.shift(),
                        *div.0.divider(),
                    );
                    (Repr::from_buffer(buffer), Repr::from_dword(r))
                }
                (Large(mut buffer), ConstDivisorRepr::Large(div)) => {
                    let div_len = div.normalized_divisor.len();
                    if buffer.len() < div_len {
                        /*@ proof { lemma_dc_shorter(buffer@, div.normalized_divisor@.len() as int, div.orig()); } @*/
                        (Repr::zero(), Repr::from_buffer(buffer))
                    } else {
                        /*@ let ghost a = val(buffer@); let ghost len = buffer@.len() as int; let ghost n = div_len as int; @*/
                        let mut allocation = MemoryAllocation::new(div::memory_requirement_exact(
                            buffer.len(),
                            div_len,
                        ));
                        let q_top = div::div_rem_unshifted_in_place(
                            &mut buffer,
                            &div.normalized_divisor,
                            div.shift,
                            div.fast_div_top,
                            &mut allocation.memory(),
                        );
                        /*@ let ghost l1 = buffer@; @*/

                        let mut q = Buffer::from(&buffer[div_len..]);
                        q.push_resizing(q_top);
                        buffer.truncate(div_len);
                        /*@
                        let ghost rs = val(l1.subrange(0, n));
                        let ghost p = pow2(div.shift as int);
                        proof {
                            lemma_sh_pow2_pos(div.shift as int);
                            lemma_dc_large_quotient(a, div.orig(), p, val(div.normalized_divisor@), l1, n, q_top, q@);
                        }
                        @*/
                        debug_assert_zero!(shift::shr_in_place(&mut buffer, div.shift));
                        /*@ proof {
                            lemma_sh_pow2_pos((WORD_BITS - div.shift) as int);
                            assert(__zchk0 == 0) by (nonlinear_arith)
                                requires __zchk0 as int == (rs % p) * pow2((WORD_BITS - div.shift) as int), rs % p == 0;
                        } @*/
                        (Repr::from_buffer(q), Repr::from_buffer(buffer))
                    }
                }
            }
        }
