//@ item: integer/src/div_const.rs :: mod repr :: impl<'r> Div<&'r ConstDivisorRepr> for TypedRepr :: div
fn div(self, rhs: &ConstDivisorRepr) -> Repr
/*@ #[hoist(Self = TypedRepr, Name = typed_div_const, Output = Repr)]
    requires self.wf(), rhs.wf(),
    // same quotient as plain division by the divisor the ConstDivisor was built from
    ensures is_quotient(self.v(), rhs.value(), ret.v()),
@*/
{
    /*@ proof { lemma_dc_typed_bound(self); lemma_dc_rem_arms(self.v(), self.nwords(), *rhs); } @*/
            match (self, rhs) {
                (Small(dword), ConstDivisorRepr::Single(div)) => {
                    Repr::from_dword(div_rem_small_single(dword, div).0)
                }
                (Small(dword), ConstDivisorRepr::Double(div)) => {
                    Repr::from_word(div_rem_small_double(dword, div).0)
                }
                (Small(_), ConstDivisorRepr::Large(_)) => {
                    // lhs must be less than rhs
                    Repr::zero()
                }
                (Large(mut buffer), ConstDivisorRepr::Single(div)) => {
                    let _rem = div::fast_div_by_word_in_place(
                        &mut buffer,
                        div.0.shift(),
                        *div.0.divider(),
                    );
                    /*@ proof { assert(is_div_rem(self.v(), rhs.value(), val(buffer@), _rem as int)); } @*/
                    Repr::from_buffer(buffer)
                }
                (Large(mut buffer), ConstDivisorRepr::Double(div)) => {
                    let _rem = div::fast_div_by_dword_in_place(
                        &mut buffer,
                        div.0.shift(),
                        *div.0.divider(),
                    );
                    /*@ proof { assert(is_div_rem(self.v(), rhs.value(), val(buffer@), _rem as int)); } @*/
                    Repr::from_buffer(buffer)
                }
                (Large(mut buffer), ConstDivisorRepr::Large(div)) => {
                    let div_len = div.normalized_divisor.len();
                    if buffer.len() < div_len {
                        /*@ proof { lemma_dc_shorter(buffer@, div.normalized_divisor@.len() as int, div.orig()); } @*/
                        Repr::zero()
                    } else {
                        /*@ let ghost a = val(buffer@); let ghost len = buffer@.len() as int; let ghost n = div_len as int; @*/
                        let mut allocation = MemoryAllocation::new(div::memory_requirement_exact(
                            buffer.len(),
                            div_len,
                        ));
                        let q_top = div::div_rem_unshifted_in_place(
                            &mut buffer,
                            &div.normalized_divisor,
                            div.shift,
                            div.fast_div_top,
                            &mut allocation.memory(),
                        );
                        /*@ let ghost l1 = buffer@; @*/
                        buffer.erase_front(div_len);
                        /*@ let ghost l2 = buffer@; @*/
                        buffer.push_resizing(q_top);
                        /*@ proof {
                            lemma_sh_pow2_pos(div.shift as int);
                            lemma_dc_large_quotient(a, div.orig(), pow2(div.shift as int), val(div.normalized_divisor@),
                                l1, n, q_top, buffer@);
                        } @*/
                        Repr::from_buffer(buffer)
                    }
                }
            }
        }
