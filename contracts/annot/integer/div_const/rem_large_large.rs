//@ item: integer/src/div_const.rs :: mod repr :: rem_large_large
fn rem_large_large(mut lhs: Buffer, rhs: &ConstLargeDivisor) -> Repr
/*@
    requires rhs.wf(),
    // same remainder as plain division by the divisor the ConstDivisor was built from
    ensures is_remainder(val(lhs@), rhs.orig(), ret.v()),
@*/
{
    let modulus = &rhs.normalized_divisor;
    /*@
    let ghost a = val(lhs@);
    let ghost len = lhs@.len() as int;
    let ghost n = modulus@.len() as int;
    let ghost p = pow2(rhs.shift as int);
    let ghost m = val(modulus@);
    proof {
        lemma_sh_pow2_pos(rhs.shift as int);
        vstd::arithmetic::div_mod::lemma_fundamental_div_mod(m, p);
        assert(p * (m / p) == rhs.orig() * p) by (nonlinear_arith) requires rhs.orig() == m / p;
        lemma_valn_bound(lhs@, len);
    }
    @*/

    // only reduce if lhs can be larger than rhs
    if lhs.len() >= modulus.len() {
        let mut allocation =
            MemoryAllocation::new(div::memory_requirement_exact(lhs.len(), modulus.len()));
        let _qtop = div::div_rem_unshifted_in_place(
            &mut lhs,
            modulus,
            rhs.shift,
            rhs.fast_div_top,
            &mut allocation.memory(),
        );
        /*@ let ghost l1 = lhs@; let ghost rs = val(l1.subrange(0, n)); @*/

        lhs.truncate(modulus.len());
        /*@ proof {
            lemma_valn_bound(l1.subrange(0, n), n);
            lemma_dg_unshift_rem(a, rhs.orig(), val(l1.subrange(n, len)) + (_qtop as int) * pw(len - n), rs, p);
        } @*/
        debug_assert_zero!(shift::shr_in_place(&mut lhs, rhs.shift));
        /*@ proof {
            lemma_sh_pow2_pos((WORD_BITS - rhs.shift) as int);
            assert(__zchk0 == 0) by (nonlinear_arith)
                requires __zchk0 as int == (rs % p) * pow2((WORD_BITS - rhs.shift) as int), rs % p == 0;
        } @*/
    }
    /*@ proof {
        if len < n {
            // a < B^len <= B^(n-1) <= divisor: the dividend is its own remainder
            lemma_pw_add(len, n - 1 - len);
            lemma_pw_pos(n - 1 - len);
            assert(pw(len) * pw(n - 1 - len) >= pw(len)) by (nonlinear_arith) requires pw(n - 1 - len) >= 1, pw(len) >= 0;
            assert(is_div_rem(a, rhs.orig(), 0, a));
        }
    } @*/
    Repr::from_buffer(lhs)
}
