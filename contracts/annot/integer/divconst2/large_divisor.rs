//@ item: integer/src/div_const.rs :: impl ConstLargeDivisor :: divisor
pub fn divisor(&self) -> Buffer
/*@
    requires self.wf(), self.normalized_divisor@.len() <= max_capacity(),    // (the words came out of a Buffer)
    ensures val(ret@) == self.orig(),       // the original (unnormalized) divisor
        ret@.len() == self.normalized_divisor@.len(),
@*/
{
    let mut buffer = Buffer::from(self.normalized_divisor.as_ref());
    /*@ proof {
        lemma_sh_pow2_pos(self.shift as int);
        lemma_sh_pow2_pos((WORD_BITS - self.shift) as int);
    } @*/
    debug_assert_zero!(shift::shr_in_place(&mut buffer, self.shift));
    /*@ proof {
        let rs = val(self.normalized_divisor@);
        let p = pow2(self.shift as int);
        assert(__zchk0 == 0) by (nonlinear_arith)
            requires __zchk0 as int == (rs % p) * pow2((WORD_BITS - self.shift) as int), rs % p == 0;
    } @*/
    buffer
}
