//@ item: integer/src/div_const.rs :: impl<'r> RemAssign<&'r ConstDivisor> for IBig :: rem_assign
fn rem_assign(&mut self, rhs: &'r ConstDivisor)
/*@ #[hoist(Self = IBig, Name = ibig_rem_assign_cd, Generics = ['r])] #[ref_rhs(rhs)]
    requires dc2_wf(&rhs.0),
    ensures final(self).0.v() == dc2_tr(old(self).0.v(), rhs.0.value()),       // same as `%`
@*/
{
        *self = mem::take(self) % rhs;
}
