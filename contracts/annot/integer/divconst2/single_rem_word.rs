//@ item: integer/src/div_const.rs :: impl ConstSingleDivisor :: rem_word
pub const fn rem_word(&self, word: Word) -> Word
/*@
    requires self.0.wf(),
    // "(word << self.shift) % self" on the normalized divisor
    ensures ret as int == ((word as int) * pow2(self.0.spec_shift() as int)) % self.0.dn(),
        // C13: the residue x mod d of [0, d), scaled by the shift ((x mod d) << shift) as ReducedWord / ReducedDword store it
        ret as int == ((word as int) % self.0.orig()) * pow2(self.0.spec_shift() as int), 0 <= (word as int) % self.0.orig() < self.0.orig(),
@*/
{
    /*@ proof { assert(pow2(0) == 1); assert((word as int) * 1 == word as int); lemma_dc2_one_sub(word as int, self.0.dn()); } @*/
    if self.0.shift() == 0 {
        self.0.divider().div_rem_1by1(word).1
    } else {
        /*@ proof { lemma_dc_shl_word(word, self.0.spec_shift(), self.0.dn()); } @*/
        self.0
            .divider()
            .div_rem_2by1(extend_word(word) << self.0.shift())
            .1
    }
    /*@ proof { lemma_sh_pow2_pos(self.0.spec_shift() as int); lemma_dc2_scaled(word as int, self.0.orig(), pow2(self.0.spec_shift() as int), self.0.dn()); } @*/
}
