//@ item: integer/src/div_const.rs :: impl ConstDivisor :: from_dword
pub const fn from_dword(dword: DoubleWord) -> Self
/*@[!must_panic]
    requires dword != 0,              // C02 "non-zero b"
    ensures dc2_wf(&ret.0), ret.0.value() == dword as int,       // a prepared divisor that stands for dword ...
        (ret.0 is Single) == ((dword as int) < B()), (ret.0 is Double) == ((dword as int) >= B()),      // ... in the representation its size decides
@*/
/*@[must_panic] requires dword == 0, ensures false, @*/
{
    if dword == 0 {
        panic_divide_by_0()
    }

    Self(if let Some(word) = shrink_dword(dword) {
        ConstDivisorRepr::Single(ConstSingleDivisor::new(word))
    } else {
        ConstDivisorRepr::Double(ConstDoubleDivisor::new(dword))
    })
}
