//@ item: integer/src/div_const.rs :: impl<'r> Rem<&'r ConstDivisor> for IBig :: rem
fn rem(self, rhs: &ConstDivisor) -> IBig
/*@ #[hoist(Self = IBig, Name = ibig_rem_cd, Output = IBig)] #[ref_rhs(rhs)]
    requires dc2_wf(&rhs.0),                  // a ConstDivisor as its constructors build it
    ensures ret.0.v() == dc2_tr(self.0.v(), rhs.0.value()),      // remainder of the truncating division
        // C02: a == q*d + r, |r| < d, r == 0 or sign(r) == sign(a), for q := the truncated quotient
        dc2_trunc_ok(self.0.v(), rhs.0.value(), dc2_tq(self.0.v(), rhs.0.value()), ret.0.v()),
@*/
{
        /*@ proof { lemma_dc2_value_pos(rhs.0); lemma_dc2_trunc(self.0.v(), rhs.0.value()); lemma_dc2_nonneg(iabs(self.0.v()), rhs.0.value()); } @*/
        let (sign, repr) = self.into_sign_repr();
        IBig((repr % &rhs.0).with_sign(sign))
}
