//@ item: integer/src/div_const.rs :: impl ConstSingleDivisor :: new
pub const fn new(n: Word) -> Self
/*@
    requires n != 0,          // every caller has excluded zero (ConstDivisor::{new, from_word, from_dword} panic first)
    ensures
        // the prepared divisor stands for n: stored divisor == n << shift with the top bit set (shift == leading zeros)
        ret.0.wf(), ret.0.orig() == n as int,
        ret.0.dn() == (n as int) * pow2(ret.0.spec_shift() as int),
@*/
{
    debug_assert!(n != 0);
    Self(PreMulInv2by1::<Word>::new(n))
    /*@ proof { lemma_dc2_exact(ret.0.dn(), ret.0.spec_shift() as int); } @*/
}
