//@ item: integer/src/div_const.rs :: impl<'r> DivRemAssign<&'r ConstDivisor> for UBig :: div_rem_assign
fn div_rem_assign(&mut self, rhs: &ConstDivisor) -> UBig
/*@ #[hoist(Self = UBig, Name = ubig_divrem_assign_cd, OutputRem = UBig)]
    requires old(self).0.v() >= 0, dc2_wf(&rhs.0),
    ensures final(self).0.v() == old(self).0.v() / rhs.0.value(), ret.0.v() == old(self).0.v() % rhs.0.value(),   // same as div_rem
@*/
{
        let (q, r) = mem::take(self).div_rem(rhs);
        *self = q;
        r
}
