//@ item: integer/src/div_const.rs :: impl ConstLargeDivisor :: new
pub fn new(mut n: Buffer) -> Self
/*@
    requires repr_stub::large_wf(n@),            // only caller: ConstDivisor::new with the words of a `Large` magnitude
    ensures
        // the prepared divisor stands for n: stored words == n << shift with the top bit set, reciprocal of the two top words
        ret.wf(), ret.orig() == val(n@),
        ret.normalized_divisor@.len() == n@.len(),
        val(ret.normalized_divisor@) == val(n@) * pow2(ret.shift as int),
        div_prepared(ret.normalized_divisor@, ret.fast_div_top),
@*/
{
    /*@ let ghost n0 = n@; proof { lemma_dc2_maxcap(); } @*/
    let (shift, fast_div_top) = crate::div::normalize(&mut n);
    /*@ let ghost n1 = n@; @*/
    Self {
        normalized_divisor: n.into_boxed_slice(),
        shift,
        fast_div_top,
    }
    /*@ proof { lemma_dc2_large_new(n0, n1, shift as int); } @*/
}
