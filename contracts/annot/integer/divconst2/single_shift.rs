//@ item: integer/src/div_const.rs :: impl ConstSingleDivisor :: shift
pub const fn shift(&self) -> u32
/*@
    ensures ret == self.0.spec_shift(),
@*/
{
    self.0.shift()
}
