//@ item: integer/src/div_const.rs :: impl<'r> DivAssign<&'r ConstDivisor> for IBig :: div_assign
fn div_assign(&mut self, rhs: &'r ConstDivisor)
/*@ #[hoist(Self = IBig, Name = ibig_div_assign_cd, Generics = ['r])] #[ref_rhs(rhs)]
    requires dc2_wf(&rhs.0),
    ensures final(self).0.v() == dc2_tq(old(self).0.v(), rhs.0.value()),       // same as `/`
@*/
{
        *self = mem::take(self) / rhs;
}
