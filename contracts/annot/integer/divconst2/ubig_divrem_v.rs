//@ item: integer/src/div_const.rs :: impl<'r> DivRem<&'r ConstDivisor> for UBig :: div_rem
fn div_rem(self, rhs: &ConstDivisor) -> (UBig, UBig)
/*@ #[hoist(Self = UBig, Name = ubig_divrem_cd, OutputDiv = UBig, OutputRem = UBig)]
    requires self.0.v() >= 0,                 // type invariant of UBig
        dc2_wf(&rhs.0),                  // a ConstDivisor as its constructors build it
    ensures ret.0.0.v() == self.0.v() / rhs.0.value(), ret.1.0.v() == self.0.v() % rhs.0.value(),     // same as `/` and `%`
        is_div_rem(self.0.v(), rhs.0.value(), ret.0.0.v(), ret.1.0.v()),       // a == q*d + r, 0 <= r < d
@*/
{
        /*@ proof { lemma_dc2_value_pos(rhs.0); lemma_dor_divmod(self.0.v(), rhs.0.value()); } @*/
        let (q, r) = self.into_repr().div_rem(&rhs.0);
        (UBig(q), UBig(r))
}
