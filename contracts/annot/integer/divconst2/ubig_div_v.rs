//@ item: integer/src/div_const.rs :: impl<'r> Div<&'r ConstDivisor> for UBig :: div
fn div(self, rhs: &ConstDivisor) -> UBig
/*@ #[hoist(Self = UBig, Name = ubig_div_cd, Output = UBig)] #[ref_rhs(rhs)]
    requires self.0.v() >= 0,                 // type invariant of UBig
        dc2_wf(&rhs.0),                  // a ConstDivisor as its constructors build it
    ensures ret.0.v() == self.0.v() / rhs.0.value(),        // the quotient of plain `/`: floor(a / d)
        is_quotient(self.0.v(), rhs.0.value(), ret.0.v()),  // a == q*d + r for some 0 <= r < d
@*/
{
        /*@ proof { lemma_dc2_value_pos(rhs.0); lemma_dor_divmod(self.0.v(), rhs.0.value()); } @*/
        UBig(self.into_repr() / &rhs.0)
}
