//@ item: integer/src/div_const.rs :: impl ConstSingleDivisor :: divisor
pub const fn divisor(&self) -> Word
/*@
    requires self.0.wf(),
    ensures ret as int == self.0.orig(),        // the original (unnormalized) divisor
@*/
{
    /*@ proof { lemma_sh_shr_div_w(self.0.dn() as Word, self.0.spec_shift()); } @*/
    self.0.divisor() >> self.0.shift()
}
