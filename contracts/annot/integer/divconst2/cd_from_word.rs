//@ item: integer/src/div_const.rs :: impl ConstDivisor :: from_word
pub const fn from_word(word: Word) -> Self
/*@[!must_panic]
    requires word != 0,               // C02 "non-zero b"
    ensures dc2_wf(&ret.0), ret.0.value() == word as int, ret.0 is Single,
@*/
/*@[must_panic] requires word == 0, ensures false, @*/
{
    if word == 0 {
        panic_divide_by_0()
    }
    Self(ConstDivisorRepr::Single(ConstSingleDivisor::new(word)))
}
