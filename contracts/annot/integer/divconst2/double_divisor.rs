//@ item: integer/src/div_const.rs :: impl ConstDoubleDivisor :: divisor
pub const fn divisor(&self) -> DoubleWord
/*@
    requires self.0.wf(),
    ensures ret as int == self.0.orig(),        // the original (unnormalized) divisor
@*/
{
    /*@ proof { lemma_dd_shr_div(self.0.dn() as DoubleWord, self.0.spec_shift()); } @*/
    self.0.divisor() >> self.0.shift()
}
