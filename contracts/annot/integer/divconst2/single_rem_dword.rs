//@ item: integer/src/div_const.rs :: impl ConstSingleDivisor :: rem_dword
pub const fn rem_dword(&self, dword: DoubleWord) -> Word
/*@
    requires self.0.wf(),
    // "(dword << self.shift) % self" on the normalized divisor, for EVERY dword (the high word is reduced first;
    // the former `shift == 0` shortcut that skipped the reduction was a defect, fixed in /repo)
    ensures ret as int == ((dword as int) * pow2(self.0.spec_shift() as int)) % self.0.dn(),
        // C13: the residue x mod d of [0, d), scaled by the shift ((x mod d) << shift) as ReducedWord / ReducedDword store it
        ret as int == ((dword as int) % self.0.orig()) * pow2(self.0.spec_shift() as int), 0 <= (dword as int) % self.0.orig() < self.0.orig(),
@*/
{
    let (n0, n1, n2) = shl_dword(dword, self.0.shift());
    /*@ proof { lemma_dc_single_pre(dword as int, n0 as int, n1 as int, n2 as int, pow2(self.0.spec_shift() as int), self.0.spec_shift(), self.0.dn()); } @*/
    let (_, r1) = self.0.divider().div_rem_2by1(double_word(n1, n2));
    /*@ proof { lemma_dc_two_steps(n0 as int, n1 as int + (n2 as int) * B(), r1 as int, self.0.dn()); } @*/
    self.0.divider().div_rem_2by1(double_word(n0, r1)).1
    /*@ proof { lemma_sh_pow2_pos(self.0.spec_shift() as int); lemma_dc2_scaled(dword as int, self.0.orig(), pow2(self.0.spec_shift() as int), self.0.dn()); } @*/
}
