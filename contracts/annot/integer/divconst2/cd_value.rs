//@ item: integer/src/div_const.rs :: impl ConstDivisor :: value
pub fn value(&self) -> UBig
/*@
    requires dc2_wf(&self.0),
    ensures ret.0.v() == self.0.value(),        // the divisor the ConstDivisor was built from
@*/
{
    UBig(match &self.0 {
        ConstDivisorRepr::Single(d) => Repr::from_word(d.divisor()),
        ConstDivisorRepr::Double(d) => Repr::from_dword(d.divisor()),
        ConstDivisorRepr::Large(d) => Repr::from_buffer(d.divisor()),
    })
}
