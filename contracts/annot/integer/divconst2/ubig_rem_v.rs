//@ item: integer/src/div_const.rs :: impl<'r> Rem<&'r ConstDivisor> for UBig :: rem
fn rem(self, rhs: &ConstDivisor) -> UBig
/*@ #[hoist(Self = UBig, Name = ubig_rem_cd, Output = UBig)] #[ref_rhs(rhs)]
    requires self.0.v() >= 0,                 // type invariant of UBig
        dc2_wf(&rhs.0),                  // a ConstDivisor as its constructors build it
    ensures ret.0.v() == self.0.v() % rhs.0.value(),        // the remainder of plain `%`
        0 <= ret.0.v() < rhs.0.value(),                     // C13: a residue in [0, d)
        is_remainder(self.0.v(), rhs.0.value(), ret.0.v()),
@*/
{
        /*@ proof { lemma_dc2_value_pos(rhs.0); lemma_dor_divmod(self.0.v(), rhs.0.value()); } @*/
        UBig(self.into_repr() % &rhs.0)
}
