//@ item: integer/src/div_const.rs :: impl ConstDoubleDivisor :: rem_large
pub fn rem_large(&self, words: &[Word]) -> DoubleWord
/*@
    requires self.0.wf(), 2 <= words@.len() <= usize::MAX,
    // "(words << self.shift) % self" on the normalized divisor
    ensures ret as int == (val(words@) * pow2(self.0.spec_shift() as int)) % self.0.dn(),
        // C13: the residue x mod d of [0, d), scaled by the shift ((x mod d) << shift) as ReducedWord / ReducedDword store it
        ret as int == ((val(words@)) % self.0.orig()) * pow2(self.0.spec_shift() as int), 0 <= (val(words@)) % self.0.orig() < self.0.orig(),
@*/
{
    let mut rem = div::fast_rem_by_normalized_dword(words, *self.0.divider());
    /*@
    let ghost d = self.0.dn();
    let ghost p = pow2(self.0.spec_shift() as int);
    proof {
        assert(pow2(0) == 1);
        lemma_valn_bound(words@, words@.len() as int);
        vstd::arithmetic::div_mod::lemma_mod_bound(val(words@), d);
        lemma_sh_pow2_pos(self.0.spec_shift() as int);
        vstd::arithmetic::div_mod::lemma_mul_mod_noop_left(val(words@), p, d);
        if self.0.spec_shift() == 0 { assert(val(words@) * 1 == val(words@)); }
    }
    @*/
    if self.0.shift() != 0 {
        let (r0, r1, r2) = shl_dword(rem, self.0.shift());
        /*@ proof { lemma_dc_double_pre(rem as int, r0 as int, r1 as int, r2 as int, p, self.0.spec_shift(), d);
            lemma_dc2_one_sub_lo(r0 as int + (r1 as int) * B(), d); } @*/
        rem = self.0.divider().div_rem_3by2(r0, double_word(r1, r2)).1
    }
    rem
    /*@ proof { lemma_valn_bound(words@, words@.len() as int); lemma_sh_pow2_pos(self.0.spec_shift() as int); lemma_dc2_scaled(val(words@), self.0.orig(), pow2(self.0.spec_shift() as int), self.0.dn()); } @*/
}
