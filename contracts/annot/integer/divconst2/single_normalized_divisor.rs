//@ item: integer/src/div_const.rs :: impl ConstSingleDivisor :: normalized_divisor
pub const fn normalized_divisor(&self) -> Word
/*@
    ensures ret as int == self.0.dn(),          // the stored divisor (original << shift)
@*/
{
    self.0.divisor()
}
