//@ item: integer/src/div_const.rs :: impl<'r> DivRem<&'r ConstDivisor> for IBig :: div_rem
fn div_rem(self, rhs: &ConstDivisor) -> (IBig, IBig)
/*@ #[hoist(Self = IBig, Name = ibig_divrem_cd, OutputDiv = IBig, OutputRem = IBig)]
    requires dc2_wf(&rhs.0),                  // a ConstDivisor as its constructors build it
    ensures ret.0.0.v() == dc2_tq(self.0.v(), rhs.0.value()), ret.1.0.v() == dc2_tr(self.0.v(), rhs.0.value()),   // same as `/` and `%`
        dc2_trunc_ok(self.0.v(), rhs.0.value(), ret.0.0.v(), ret.1.0.v()),     // a == q*d + r, |r| < d, sign(r) == sign(a) or r == 0
@*/
{
        /*@ proof { lemma_dc2_value_pos(rhs.0); lemma_dc2_trunc(self.0.v(), rhs.0.value()); lemma_dc2_nonneg(iabs(self.0.v()), rhs.0.value()); } @*/
        let (sign, repr) = self.into_sign_repr();
        let (q, r) = repr.div_rem(&rhs.0);
        (IBig(q.with_sign(sign)), IBig(r.with_sign(sign)))
}
