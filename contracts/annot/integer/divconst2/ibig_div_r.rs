//@ item: integer/src/div_const.rs :: impl<'l, 'r> Div<&'r ConstDivisor> for &'l IBig :: div
fn div(self, rhs: &ConstDivisor) -> IBig
/*@ #[hoist(Self = (&'l IBig), Name = ibig_div_cd_ref, Output = IBig, Generics = ['l])] #[ref_rhs(rhs)]
    requires dc2_wf(&rhs.0),                  // a ConstDivisor as its constructors build it
    ensures ret.0.v() == dc2_tq(self.0.v(), rhs.0.value()),      // quotient truncated toward zero
        dc2_trunc_ok(self.0.v(), rhs.0.value(), ret.0.v(), self.0.v() - ret.0.v() * rhs.0.value()),
@*/
{
        /*@ proof { lemma_dc2_value_pos(rhs.0); lemma_dc2_trunc(self.0.v(), rhs.0.value()); lemma_dc2_nonneg(iabs(self.0.v()), rhs.0.value()); } @*/
        let (sign, repr) = self.clone().into_sign_repr();
        IBig((repr / &rhs.0).with_sign(sign))
}
