//@ item: integer/src/div_const.rs :: impl<'r> RemAssign<&'r ConstDivisor> for UBig :: rem_assign
fn rem_assign(&mut self, rhs: &'r ConstDivisor)
/*@ #[hoist(Self = UBig, Name = ubig_rem_assign_cd, Generics = ['r])] #[ref_rhs(rhs)]
    requires old(self).0.v() >= 0, dc2_wf(&rhs.0),
    ensures final(self).0.v() == old(self).0.v() % rhs.0.value(),       // same as `%`
@*/
{
        *self = mem::take(self) % rhs;
}
