//@ item: integer/src/div_const.rs :: impl ConstDoubleDivisor :: rem_dword
pub const fn rem_dword(&self, dword: DoubleWord) -> DoubleWord
/*@
    requires self.0.wf(),
    // "(dword << self.shift) % self" on the normalized divisor
    ensures ret as int == ((dword as int) * pow2(self.0.spec_shift() as int)) % self.0.dn(),
        // C13: the residue x mod d of [0, d), scaled by the shift ((x mod d) << shift) as ReducedWord / ReducedDword store it
        ret as int == ((dword as int) % self.0.orig()) * pow2(self.0.spec_shift() as int), 0 <= (dword as int) % self.0.orig() < self.0.orig(),
@*/
{
    /*@ proof { assert(pow2(0) == 1); assert((dword as int) * 1 == dword as int); lemma_dc2_one_sub(dword as int, self.0.dn()); } @*/
    if self.0.shift() == 0 {
        self.0.divider().div_rem_2by2(dword).1
    } else {
        let (n0, n1, n2) = shl_dword(dword, self.0.shift());
        /*@ proof { lemma_dc_double_pre(dword as int, n0 as int, n1 as int, n2 as int, pow2(self.0.spec_shift() as int), self.0.spec_shift(), self.0.dn()); } @*/
        self.0.divider().div_rem_3by2(n0, double_word(n1, n2)).1
    }
    /*@ proof { lemma_sh_pow2_pos(self.0.spec_shift() as int); lemma_dc2_scaled(dword as int, self.0.orig(), pow2(self.0.spec_shift() as int), self.0.dn()); } @*/
}
