//@ item: integer/src/div_const.rs :: impl ConstDoubleDivisor :: new
pub const fn new(n: DoubleWord) -> Self
/*@
    requires n as int >= B(),          // a genuine two-word divisor (callers: shrink_dword returned None)
    ensures
        // the prepared divisor stands for n: stored divisor == n << shift with the top bit set (shift == leading zeros)
        ret.0.wf(), ret.0.orig() == n as int,
        ret.0.dn() == (n as int) * pow2(ret.0.spec_shift() as int),
@*/
{
    debug_assert!(n > Word::MAX as DoubleWord);
    Self(PreMulInv3by2::<Word, DoubleWord>::new(n))
    /*@ proof { lemma_dc2_exact(ret.0.dn(), ret.0.spec_shift() as int); } @*/
}
