//@ item: integer/src/div_const.rs :: impl ConstDivisor :: new
pub fn new(n: UBig) -> ConstDivisor
/*@[!must_panic]
    requires n.0.v() > 0,             // UBig invariant (>= 0) and C02 "non-zero b"
    ensures dc2_wf(&ret.0), ret.0.value() == n.0.v(),        // a prepared divisor that stands for n, whatever its size class,
        // in the representation its size decides
        (ret.0 is Single) == (n.0.v() < B()), (ret.0 is Double) == (B() <= n.0.v() < B() * B()),
@*/
/*@[must_panic] requires n.0.v() == 0, ensures false, @*/
{
    /*@ proof { lemma_dc2_large_ge_all(); } @*/
    Self(match n.into_repr() {
        TypedRepr::Small(0) => panic_divide_by_0(),
        TypedRepr::Small(dword) => {
            if let Some(word) = shrink_dword(dword) {
                ConstDivisorRepr::Single(ConstSingleDivisor::new(word))
            } else {
                ConstDivisorRepr::Double(ConstDoubleDivisor::new(dword))
            }
        }
        TypedRepr::Large(words) => ConstDivisorRepr::Large(ConstLargeDivisor::new(words)),
    })
}
