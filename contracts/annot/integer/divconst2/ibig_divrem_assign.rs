//@ item: integer/src/div_const.rs :: impl<'r> DivRemAssign<&'r ConstDivisor> for IBig :: div_rem_assign
fn div_rem_assign(&mut self, rhs: &ConstDivisor) -> IBig
/*@ #[hoist(Self = IBig, Name = ibig_divrem_assign_cd, OutputRem = IBig)]
    requires dc2_wf(&rhs.0),
    ensures final(self).0.v() == dc2_tq(old(self).0.v(), rhs.0.value()), ret.0.v() == dc2_tr(old(self).0.v(), rhs.0.value()),   // same as div_rem
@*/
{
        let (q, r) = mem::take(self).div_rem(rhs);
        *self = q;
        r
}
