//@ item: integer/src/div_const.rs :: impl ConstDoubleDivisor :: normalized_divisor
pub const fn normalized_divisor(&self) -> DoubleWord
/*@
    ensures ret as int == self.0.dn(),          // the stored divisor (original << shift)
@*/
{
    self.0.divisor()
}
