//@ item: integer/src/third_party/num_order.rs :: impl NumOrd<IBig> for IBig :: num_cmp
fn num_cmp(&self, other: &IBig) -> Ordering
/*@ #[hoist(Self = IBig, Name = ibig_num_cmp_ibig)]
    ensures ret == cmp_int(self.v(), other.v()),   // C14: the ordering of the values
@*/
{
        self.cmp(other)
    }
