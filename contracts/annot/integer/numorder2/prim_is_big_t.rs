//@ item: integer/src/third_party/num_order.rs :: macro impl_num_ord_ibig_with_signed#0 :: impl NumOrd<$t> for IBig :: num_partial_cmp
fn num_partial_cmp(&self, other: &$t) -> Option<Ordering>
/*@ #[hoist(Self = IBig, Name = big_num_partial_cmp_prim)]
    ensures ret == Some(cmp_int(self.v(), *other as int)),   // C14: the ordering of the values
@*/
{
                self.partial_cmp(&IBig::from_signed(*other))
            }
