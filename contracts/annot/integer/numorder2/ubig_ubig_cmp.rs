//@ item: integer/src/third_party/num_order.rs :: impl NumOrd<UBig> for UBig :: num_cmp
fn num_cmp(&self, other: &UBig) -> Ordering
/*@ #[hoist(Self = UBig, Name = ubig_num_cmp_ubig)]
    ensures ret == cmp_int(self.v(), other.v()),   // C14: the ordering of the values
@*/
{
        self.cmp(other)
    }
