//@ item: integer/src/third_party/num_order.rs :: impl NumOrd<IBig> for IBig :: num_partial_cmp
fn num_partial_cmp(&self, other: &IBig) -> Option<Ordering>
/*@ #[hoist(Self = IBig, Name = ibig_num_partial_cmp_ibig)]
    ensures ret == Some(cmp_int(self.v(), other.v())),   // C14: the ordering of the values
@*/
{
        self.partial_cmp(other)
    }
