//@ item: integer/src/third_party/num_order.rs :: impl NumHash for UBig :: num_hash
fn num_hash<H: core::hash::Hasher>(&self, state: &mut H)
/*@ #[hoist(Self = UBig, Name = ubig_num_hash)]
    ensures
        // C14: what is fed to the hasher is num-order's hash of the integer: sgn(n) * (|n| mod (2^127 - 1))
        fed(*old(state), *final(state)) == int_hash(self.v()),
@*/
{
        /*@ proof { vstd::arithmetic::div_mod::lemma_mod_bound(self.v(), m127()); } @*/
        let m = self % (i128::MAX as u128);
        (m as i128).hash(state)
    }
