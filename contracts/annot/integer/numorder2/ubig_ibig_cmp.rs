//@ item: integer/src/third_party/num_order.rs :: impl NumOrd<IBig> for UBig :: num_cmp
fn num_cmp(&self, other: &IBig) -> Ordering
/*@ #[hoist(Self = UBig, Name = ubig_num_cmp_ibig)]
    ensures ret == cmp_int(self.v(), other.v()),   // C14: the ordering of the values
@*/
{
        let (rhs_sign, rhs_mag) = other.as_sign_repr();
        match rhs_sign {
            Sign::Positive => self.repr().cmp(&rhs_mag),
            Sign::Negative => Ordering::Greater,
        }
    }
