//@ item: integer/src/third_party/num_order.rs :: impl NumOrd<UBig> for UBig :: num_partial_cmp
fn num_partial_cmp(&self, other: &UBig) -> Option<Ordering>
/*@ #[hoist(Self = UBig, Name = ubig_num_partial_cmp_ubig)]
    ensures ret == Some(cmp_int(self.v(), other.v())),   // C14: the ordering of the values
@*/
{
        self.partial_cmp(other)
    }
