//@ item: integer/src/third_party/num_order.rs :: macro impl_num_ord_ibig_with_float#0 :: impl NumOrd<$t> for IBig :: num_partial_cmp
fn num_partial_cmp(&self, other: &$t) -> Option<Ordering>
/*@ #[hoist(Self = IBig, Name = ibig_cmp_float)] @*/
/*@[f32]
    ensures // C14: the ordering of the exact real values; NaN is incomparable
        ret == cmp_int_float(self.v(), f32_nan(*other), f32_inf(*other), f32_neg(*other), f32_man(*other), f32_exp(*other)),
@*/
/*@[f64]
    ensures // C14: the ordering of the exact real values; NaN is incomparable
        ret == cmp_int_float(self.v(), f64_nan(*other), f64_inf(*other), f64_neg(*other), f64_man(*other), f64_exp(*other)),
@*/
{
                /*@[f32]
                let ghost m = f32_man(*other); let ghost e = f32_exp(*other);
                let ghost digits = 24int; let ghost maxe = 128int;
                proof { ax_f32_model(*other); }
                @*/
                /*@[f64]
                let ghost m = f64_man(*other); let ghost e = f64_exp(*other);
                let ghost digits = 53int; let ghost maxe = 1024int;
                proof { ax_f64_model(*other); }
                @*/
                /*@
                let ghost x = self.v(); let ghost ax = rabs(x); let ghost am = rabs(m);
                let ghost ae: nat = (if e >= 0 { e } else { -e }) as nat;
                proof {
                    ax_blen(ax); ax_blen(am); vstd::arithmetic::power2::lemma2_to64();
                    vstd::arithmetic::power2::lemma_pow2_pos(ae);
                    lemma_scale_sign(m, pow2(ae) as int); lemma_scale_sign(x, pow2(ae) as int);
                }
                @*/
                // step0: compare with nan and 0
                if other.is_nan() {
                    return None;
                } else if *other == 0. {
                    /*@[f32] proof { ax_f32_eq_zero(*other, true); } @*/
                    /*@[f64] proof { ax_f64_eq_zero(*other, true); } @*/
                    /*@ proof { assert(0 * pow2(ae) == 0); } @*/
                    return match self.is_zero() {
                        true => Some(Ordering::Equal),
                        false => Some(self.sign() * Ordering::Greater)
                    };
                }
                /*@[f32] proof { ax_f32_eq_zero(*other, false); } @*/
                /*@[f64] proof { ax_f64_eq_zero(*other, false); } @*/

                // step1: compare sign
                let sign = match (self.sign(), other.sign()) {
                    (Sign::Positive, Sign::Positive) => Sign::Positive,
                    (Sign::Positive, Sign::Negative) => return Some(Ordering::Greater),
                    (Sign::Negative, Sign::Positive) => return Some(Ordering::Less),
                    (Sign::Negative, Sign::Negative) => Sign::Negative,
                };

                // step2: compare with infinity and 0
                if other.is_infinite() {
                    return Some(sign * Ordering::Less);
                }
                /*@ let ghost neg = sign == Sign::Negative;
                proof {
                    assert(m != 0);
                    assert(neg ==> x < 0 && m < 0);
                    assert(!neg ==> x >= 0 && m > 0);
                } @*/

                // step3: test if the integer is bigger than the max float value
                let self_bits = self.bit_len();
                /*@ proof {
                    // |man| < 2^digits, exp <= maxe - digits: a finite float never reaches 2^maxe, i.e. an integer with more
                    // than maxe bits (>= 2^maxe in magnitude) exceeds every finite float in magnitude
                    if self_bits as int > maxe {
                        lemma_no_bigger(ax, self_bits as int, am, digits, e);
                        lemma_if_decide(x, m, e, neg, true);
                    }
                } @*/
                if self_bits > (<$t>::MANTISSA_DIGITS as usize + <$t>::MAX_EXP as usize) {
                    return Some(sign * Ordering::Greater);
                }

                // step4: decode the float and compare the bits
                let (man, exp) = other.decode().unwrap();
                /*@ proof { lemma_blen_le(am, digits as nat); } @*/
                let other_bits = man.bit_len() as isize + exp as isize; // i.e. log2(x) + 1
                /*@ proof {
                    let km = blen(am);
                    if other_bits < 0 {
                        if x != 0 { lemma_no_bigger(ax, 1, am, km, e); lemma_if_decide(x, m, e, neg, true); }
                        assert(0 * pow2(ae) == 0);
                    } else if self_bits as int > other_bits as int {
                        lemma_no_bigger(ax, self_bits as int, am, km, e);
                        lemma_if_decide(x, m, e, neg, true);
                    } else if (self_bits as int) < other_bits as int {
                        lemma_no_smaller(ax, self_bits as int, am, km, e);
                        lemma_if_decide(x, m, e, neg, false);
                    }
                } @*/
                if other_bits < 0 {
                    // |other| < 1/2: any non-zero integer has the larger magnitude
                    return Some(if self.is_zero() {
                        Ordering::Less
                    } else {
                        sign * Ordering::Greater
                    });
                } else if self_bits > other_bits as usize {
                    return Some(sign * Ordering::Greater);
                } else if self_bits < other_bits as usize {
                    return Some(sign * Ordering::Less);
                }

                // step5: do the final comparison
                if exp >= 0 {
                    let shifted = IBig::from(man) << exp as usize;
                    self.partial_cmp(&shifted)
                } else {
                    (self << (-exp as usize)).partial_cmp(&IBig::from(man))
                }
            }
