//@ item: integer/src/third_party/num_order.rs :: macro impl_num_ord_ibig_with_float#0 :: impl NumOrd<IBig> for $t :: num_partial_cmp
fn num_partial_cmp(&self, other: &IBig) -> Option<Ordering>
/*@[f32] #[hoist(Self = f32, Name = float_cmp_ibig)]
    requires other.npc_req(self),
    ensures // C14: the ordering of the exact real values, the float on the left; NaN is incomparable
        ret == cmp_float_int_l(f32_nan(*self), f32_inf(*self), f32_neg(*self), f32_man(*self), f32_exp(*self), other.v()),
@*/
/*@[f64] #[hoist(Self = f64, Name = float_cmp_ibig)]
    requires other.npc_req(self),
    ensures // C14: the ordering of the exact real values, the float on the left; NaN is incomparable
        ret == cmp_float_int_l(f64_nan(*self), f64_inf(*self), f64_neg(*self), f64_man(*self), f64_exp(*self), other.v()),
@*/
{
                other.num_partial_cmp(self).map(|ord| /*@ -> (r: Ordering) ensures r == ord_rev(ord) @*/ ord.reverse())
            }
