//@ item: integer/src/third_party/num_order.rs :: macro impl_num_ord_ubig_with_signed#0 :: impl NumOrd<$t> for UBig :: num_partial_cmp
fn num_partial_cmp(&self, other: &$t) -> Option<Ordering>
/*@ #[hoist(Self = UBig, Name = big_num_partial_cmp_prim)]
    ensures ret == Some(cmp_int(self.v(), *other as int)),   // C14: the ordering of the values
@*/
{
                self.num_partial_cmp(&IBig::from_signed(*other))
            }
