//@ item: integer/src/third_party/num_order.rs :: macro impl_num_ord_ubig_with_unsigned#0 :: impl NumOrd<UBig> for $t :: num_partial_cmp
fn num_partial_cmp(&self, other: &UBig) -> Option<Ordering>
/*@[u8] #[hoist(Self = u8, Name = prim_num_partial_cmp_big)] @*/
/*@[u16] #[hoist(Self = u16, Name = prim_num_partial_cmp_big)] @*/
/*@[u32] #[hoist(Self = u32, Name = prim_num_partial_cmp_big)] @*/
/*@[u64] #[hoist(Self = u64, Name = prim_num_partial_cmp_big)] @*/
/*@[u128] #[hoist(Self = u128, Name = prim_num_partial_cmp_big)] @*/
/*@[usize] #[hoist(Self = usize, Name = prim_num_partial_cmp_big)] @*/
/*@
    ensures ret == Some(cmp_int(*self as int, other.v())),   // C14: the ordering of the values
@*/
{
                UBig::from_unsigned(*self).partial_cmp(other)
            }
