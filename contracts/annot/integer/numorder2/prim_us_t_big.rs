//@ item: integer/src/third_party/num_order.rs :: macro impl_num_ord_ubig_with_signed#0 :: impl NumOrd<UBig> for $t :: num_partial_cmp
fn num_partial_cmp(&self, other: &UBig) -> Option<Ordering>
/*@[i8] #[hoist(Self = i8, Name = prim_num_partial_cmp_big)] @*/
/*@[i16] #[hoist(Self = i16, Name = prim_num_partial_cmp_big)] @*/
/*@[i32] #[hoist(Self = i32, Name = prim_num_partial_cmp_big)] @*/
/*@[i64] #[hoist(Self = i64, Name = prim_num_partial_cmp_big)] @*/
/*@[i128] #[hoist(Self = i128, Name = prim_num_partial_cmp_big)] @*/
/*@[isize] #[hoist(Self = isize, Name = prim_num_partial_cmp_big)] @*/
/*@
    ensures ret == Some(cmp_int(*self as int, other.v())),   // C14: the ordering of the values
@*/
{
                IBig::from_signed(*self).num_partial_cmp(other)
            }
