//@ item: integer/src/third_party/num_order.rs :: impl NumHash for IBig :: num_hash
fn num_hash<H: core::hash::Hasher>(&self, state: &mut H)
/*@ #[hoist(Self = IBig, Name = ibig_num_hash)]
    ensures
        // C14: what is fed to the hasher is num-order's hash of the integer: sgn(n) * (|n| mod (2^127 - 1))
        fed(*old(state), *final(state)) == int_hash(self.v()),
@*/
{
        /*@ proof { lemma_mod_abs_t(self.v()); } @*/
        (self % i128::MAX).hash(state)
    }
