//@ item: integer/src/third_party/num_order.rs :: impl NumOrd<UBig> for IBig :: num_cmp
fn num_cmp(&self, other: &UBig) -> Ordering
/*@ #[hoist(Self = IBig, Name = ibig_num_cmp_ubig)]
    ensures ret == cmp_int(self.v(), other.v()),   // C14: the ordering of the values
@*/
{
        let (lhs_sign, lhs_mag) = self.as_sign_repr();
        match lhs_sign {
            Sign::Positive => lhs_mag.cmp(&other.repr()),
            Sign::Negative => Ordering::Less,
        }
    }
