//@ item: integer/src/sign.rs :: impl Signed for IBig :: sign
fn sign(&self) -> Sign
/*@ #[hoist(Self = IBig, Name = ibig_sign)]
    ensures ret == (if self.0.v() < 0 { Sign::Negative } else { Sign::Positive }),     // zero counts as Positive
@*/
{
        self.0.sign()
    }
