//@ item: integer/src/helper_macros.rs :: macro forward_ibig_ubig_binop_to_repr#1 :: impl<'l> $trait<UBig> for &'l IBig :: $method
fn $ method(self, rhs : UBig) -> $ omethod
/*@ #[hoist(Self = &'l IBig, Name = fwd_iu_gcd_ext_rv, Generics = ['l])]
    requires rhs.0.v() >= 0,                      // invariant of UBig
        self.0.v() != 0 || rhs.0.v() != 0,   // gcd_ext(0, 0) panics (documented)
        im_gcd_fits(iabs(self.0.v())), im_gcd_fits(rhs.0.v()),   // resource bound (two `Large` operands)
    ensures // C12 / C15: g = gcd(self, rhs), s * self + t * rhs == g with (s, t) in the order (self, rhs), SIGNED operands
        repr_gcd_ext_post(self.0.v(), rhs.0.v(), ret.0.0.v(), ret.1.0.v(), ret.2.0.v()),
@*/
{
                /*@ proof { lemma_im_gcd_fits(iabs(self.0.v())); lemma_im_gcd_fits(rhs.0.v()); lemma_im_sv_abs(self.0.v()); lemma_im_sv_abs(rhs.0.v()); } @*/
                let (lhs_sign, lhs_mag) = self.as_sign_repr();
let (rhs_sign, rhs_mag) = (dashu_base::Sign::Positive, rhs.into_repr());
$ impl !(lhs_sign, lhs_mag, rhs_sign, rhs_mag)
            }
