//@ item: integer/src/log.rs :: mod repr :: log_large
fn log_large(target: &[Word], base: &[Word]) -> (usize, Repr)
/*@ #[float_est(est)] #[assert_guard]
    requires
        // call sites (TypedReprRef::log): target is a `Large` magnitude; base is one too, or the two words of a double word >= B
        target@.len() >= 3, target@[target@.len() - 1] != 0,
        base@.len() >= 2, base@[base@.len() - 1] != 0,
        val(target@) >= val(base@),                          // own debug assertion (proved from this)
        6 * target@.len() <= max_capacity(),                 // resource: the trial powers are allocated (see lib/im_log_large_est.rs)
    ensures
        // C12: base^e <= target < base^(e+1), and the power itself -- for an ARBITRARY float estimate (rule D10b)
        im_is_log(val(base@), val(target@), ret.0 as int),
        ret.1.v() == ipow(val(base@), ret.0 as int),
@*/
{
    /*@ let ghost b = val(base@); let ghost t = val(target@);
        let ghost tl = target@.len() as int; let ghost bl = base@.len() as int;
        proof {
            lemma_normalized_lower(base@); lemma_pw_mono(1, bl - 1); assert(pw(1) == B() * pw(0));
            lemma_valn_bound(target@, tl);
            if bl > tl { lemma_shorter_is_less(target@, base@); }
            lemma_ipow_1(b);
            lemma_im_cap_bits();
        } @*/
    debug_assert!(cmp_in_place(target, base).is_ge()); // this ensures est >= 1

    // first estimates the result
    let log2_self = log2_bounds_large(target).0;
    let log2_base = log2_bounds_large(base).1;
    let mut est = (log2_self / log2_base) as usize; // float to int is underestimate
    /*@ proof {
        assert(im_est_small(est as int, bl, tl));
        assert(2 * (bl * est) <= 6 * tl) by (nonlinear_arith) requires est * bl <= 3 * tl;
        assert(2 * est <= 2 * (bl * est)) by (nonlinear_arith) requires bl >= 2, est >= 0;
    } @*/
    est = est.max(1); // sometimes est can be zero due to estimation error
    let mut est_pow = if est == 1 {
        Repr::from_buffer(Buffer::from(base))
    } else if base.len() == 2 {
        let base_dword = highest_dword(base);
        /*@ proof { lemma_val2(base@); } @*/
        pow::repr::pow_dword_base(base_dword, est)
    } else {
        pow::repr::pow_large_base(base, est)
    };
    /*@ proof { lemma_ipow_pos(b, est as int); lemma_im_slices(est_pow.v(), target@); } @*/
    assert!(cmp_in_place(est_pow.as_slice(), target).is_le());

    // then fix the error by trials
    loop
    /*@
        invariant_except_break
            est_pow.v() <= t,
        invariant
            b == val(base@), t == val(target@), tl == target@.len(), bl == base@.len(),
            b >= B(), bl >= 2, bl <= tl, base@[bl - 1] != 0, tl >= 3, target@[tl - 1] != 0, t < pw(tl),
            6 * tl <= max_capacity(), im_bits() * max_capacity() <= usize::MAX,
            est >= 1, est_pow.v() == ipow(b, est as int),
        ensures
            est_pow.v() <= t, t < ipow(b, est as int + 1),
        decreases t - est_pow.v(),
    @*/
    {
        /*@ let ghost p = est_pow.v();
            proof {
            lemma_im_log_step(b, est as int, p);
            lemma_ipow_mono(b, 1, est as int); lemma_ipow_1(b);
            lemma_im_slices(p, target@);
            lemma_im_slices(p * b, target@);
        } @*/
        let next_pow = mul_ops::repr::mul_large(est_pow.as_slice(), base);
        let cmp = cmp_in_place(next_pow.as_slice(), target);
        if cmp.is_le() {
            /*@ proof { lemma_im_exp_small(b, est as int + 1, t, tl); } @*/
            est_pow = next_pow;
            est += 1;
        }
        if cmp.is_ge() {
            /*@ proof { if cmp != Ordering::Greater { lemma_im_log_step(b, est as int, est_pow.v()); } } @*/
            break;
        }
    }
    (est, est_pow)
}
