//@ item: integer/src/gcd_ops.rs :: mod repr :: impl<'l> ExtendedGcd<TypedRepr> for TypedReprRef<'l> :: gcd_ext
fn gcd_ext(self, rhs: TypedRepr) -> (Repr, Repr, Repr)
/*@ #[hoist(Self = TypedReprRef<'l>, Name = typed_gcd_ext_rv, Generics = ['l])]
    requires self.wf(), rhs.wf(),
        self.v() != 0 || rhs.v() != 0,      // gcd(0, 0) panics (documented)
        match (self, rhs) { (RefLarge(w0), Large(b1)) => gcd_ext_large_pre(w0@, b1@), _ => true },
    ensures repr_gcd_ext_post(self.v(), rhs.v(), ret.0.v(), ret.1.v(), ret.2.v()),
@*/
{
            match (self, rhs) {
                (RefSmall(dword0), Small(dword1)) => gcd_ext_dword(dword0, dword1),
                (RefLarge(words0), Small(dword1)) => gcd_ext_large_dword(words0.into(), dword1),
                (RefSmall(dword0), Large(buffer1)) => {
                    let (g, s, t) = gcd_ext_large_dword(buffer1, dword0);
                    (g, t, s)
                }
                (RefLarge(words0), Large(buffer1)) => gcd_ext_large(words0.into(), buffer1),
            }
        }
