//@ item: integer/src/log.rs :: mod repr :: impl TypedReprRef<'_> :: log
pub fn log(self, base: TypedReprRef<'_>) -> (usize, Repr)
/*@ #[hoist(Self = TypedReprRef<'_>, Name = typedref_log)]
    requires self.wf(), base.wf(),
        self.v() != 0,                      // ilog(0, _) panics (documented)
        base.v() >= 2,                      // ilog(_, 0 | 1) panics (documented)
        // resource (trial powers of log_large / log_word_base, the power 2^bit_len of the base-2 shortcut)
        6 * self.nwords() <= max_capacity(), im_bits() * self.nwords() < max_capacity(),
    ensures
        // C12: ilog(x, b) = e satisfies b^e <= |x| < b^(e+1)   (UBig::ilog / IBig::ilog return `.0`; the second component
        // is not used by any caller and is left unspecified here)
        im_is_log(base.v(), self.v(), ret.0 as int),
@*/
{
            /*@ let ghost x = self.v(); let ghost bv = base.v(); let ghost nw = self.nwords();
                proof {
                    lemma_typedref_range(self); lemma_typedref_range(base);
                    lemma_im_typedref_bound(self);
                    lemma_ipow_1(bv); lemma_ipow_2(bv);
                    lemma_im_pow2_logs(x, nw, bv);
                    lemma_im_small_base_cases(x, bv);
                    // log_dword states its result with lpw (lib/gcdo_log_stubs.rs): the same power
                    assert forall|e: nat| #[trigger] lpw(bv, e) == ipow(bv, e as int) by { lemma_im_lpw_ipow(bv, e); }
                    // the two-word buffer of a double-word base
                    assert forall|s: Seq<Word>| s.len() == 2 implies #[trigger] val(s) == s[0] as int + (s[1] as int) * B() by { lemma_val2(s); }
                    lemma_pw2();
                } @*/
            if let RefSmall(0) = self {
                panic_invalid_log_oprand()
            }

            // shortcuts
            if let RefSmall(dw) = base {
                match dw {
                    0 | 1 => panic_invalid_log_oprand(),
                    2 => {
                        return (
                            self.bit_len() - 1,
                            Repr::zero().into_typed().set_bit(self.bit_len()),
                        )
                    }
                    b if b.is_power_of_two() => {
                        let base_bits = b.trailing_zeros() as usize;
                        let exp = (self.bit_len() - 1) / base_bits;
                        return (exp, Repr::zero().into_typed().set_bit(exp * base_bits));
                    }
                    _ => {}
                }
            }

            match (self, base) {
                (RefSmall(dword), RefSmall(base_dword)) => log_dword(dword, base_dword),
                (RefSmall(_), RefLarge(_)) => (0, Repr::one()),
                (RefLarge(words), RefSmall(base_dword)) => {
                    if let Some(base_word) = shrink_dword(base_dword) {
                        log_word_base(words, base_word)
                    } else {
                        let mut buffer: [Word; 2] = [0; 2];
                        let (lo, hi) = split_dword(base_dword);
                        buffer[0] = lo;
                        buffer[1] = hi;
                        log_large(words, &buffer)
                    }
                }
                (RefLarge(words), RefLarge(base_words)) => match cmp_in_place(words, base_words) {
                    Ordering::Less => (0, Repr::one()),
                    Ordering::Equal => (1, Repr::from_buffer(Buffer::from(words))),
                    Ordering::Greater => log_large(words, base_words),
                },
            }
        }
