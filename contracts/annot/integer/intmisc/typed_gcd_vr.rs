//@ item: integer/src/gcd_ops.rs :: mod repr :: impl<'r> Gcd<TypedReprRef<'r>> for TypedRepr :: gcd
fn gcd(self, rhs: TypedReprRef) -> Self::Output
/*@ #[hoist(Self = TypedRepr, Name = typed_gcd_vr, Output = Repr)]
    requires self.wf(), rhs.wf(),
        self.v() != 0 || rhs.v() != 0,      // gcd(0, 0) panics (documented)
    ensures gcdo_is_gcd(ret.v(), self.v(), rhs.v()),
@*/
{
            self.as_ref().gcd(rhs)
        }
