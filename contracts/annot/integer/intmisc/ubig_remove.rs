//@ item: integer/src/remove.rs :: impl UBig :: remove
pub fn remove(&mut self, factor: &UBig) -> Option<usize>
/*@
    ensures
        // documented: None exactly for self == 0 or factor == 0 | 1 (self untouched)
        (ret is None) == (old(self).v() == 0 || factor.v() <= 1),
        ret is None ==> final(self).v() == old(self).v(),
        // C12: Some(e) with f^e | old(self), f^(e+1) does not divide old(self), new self == old(self) / f^e
        ret is Some ==> rm_post(old(self).v(), factor.v(), ret.unwrap() as int, final(self).v()),
@*/
{
        /*@ let ghost x0 = self.v(); let ghost f = factor.v();
            proof { ax_im_ubig_bits(*self); } @*/
        if self.is_zero() || factor.is_zero() || factor.is_one() {
            return None;
        }

        // shortcut for power of 2
        if factor.is_power_of_two() {
            /*@ proof {
                // for the multiplicities b of 2 in the factor and z in self (whatever the code calls them): see lemma_rm_pow2_case
                let k = choose|k: int| k >= 0 && #[trigger] pow2(k) == f;
                assert forall|b: int, z: int| #![trigger im_is_tz(f, b), im_is_tz(x0, z)] im_is_tz(f, b) && im_is_tz(x0, z)
                    implies rm_pow2_ok(x0, f, b, z) by {
                    lemma_rm_pow2_tz(k, b);
                    lemma_rm_pow2_case(x0, f, b, z, z / b, x0 / pow2((z / b) * b));
                }
            } @*/
            let bits = factor.trailing_zeros().unwrap();
            let exp = self.trailing_zeros().unwrap() / bits;
            *self >>= exp * bits;
            return Some(exp);
        }

        let (mut q, r) = (&*self).div_rem(factor);
        if !r.is_zero() {
            /*@ proof { lemma_ipow_1(f); assert(rm_inv(f, x0, x0, 0)); lemma_rm_finish(f, x0, x0, 0); } @*/
            return Some(0);
        }

        // first stage, division with exponentially growing factors
        let mut exp = 1;
        let mut pows = vec![factor.sqr()];
        /*@ proof {
            lemma_rm_p1(f); lemma_ipow_1(f); lemma_ipow_1(f);
            vstd::arithmetic::div_mod::lemma_fundamental_div_mod(x0, f);
            lemma_rm_step(f, x0, x0, 0, f, 1, q.v());
            assert(pow2(1) == 2 * pow2(0));
        } @*/
        loop
        /*@
            invariant_except_break
                exp as int + 1 == pow2(pows@.len() as int),
            invariant
                f >= 2, x0 >= 1, x0 < pow2(usize::MAX as int), f == factor.v(),
                pows@.len() >= 1, rm_table(f, pows@),
                rm_inv(f, x0, q.v(), exp as int),
            ensures
                q.v() % rm_p(f, pows@.len() as int) != 0,
            decreases q.v(),
        @*/
        {
            /*@ let ghost l = pows@.len() as int;
                proof { lemma_rm_p_pos(f, l); } @*/
            let last = pows.last().unwrap();
            let (new_q, r) = (&q).div_rem(last);
            if !r.is_zero() {
                break;
            }
            /*@ proof {
                lemma_rm_step(f, x0, q.v(), exp as int, rm_p(f, l), pow2(l), new_q.v());
                lemma_rm_exp_bound(f, x0, new_q.v(), exp as int + pow2(l), usize::MAX as int);
                lemma_rm_shift_ok(l, exp as int + pow2(l));
                assert(pow2(l + 1) == 2 * pow2(l));
            } @*/

            exp += 1 << pows.len();
            q = new_q;
            let next_sq = last.sqr();
            pows.push(next_sq);
        }
        /*@ proof {
            let l = pows@.len() as int;
            lemma_rm_p_pos(f, l);
            lemma_rm_not_div_sq(q.v(), rm_p(f, l));
        } @*/

        // second stage, division from highest power to the lowest
        while let Some(last) = pows.pop()
        /*@
            invariant
                f >= 2, x0 >= 1, x0 < pow2(usize::MAX as int), f == factor.v(),
                rm_table(f, pows@),
                rm_inv(f, x0, q.v(), exp as int),
                q.v() % rm_p(f, pows@.len() as int + 1) != 0,
            ensures pows@.len() == 0,        // left through `None`: the table is used up
            decreases pows@.len(),
        @*/
        {
            /*@ let ghost l = pows@.len() as int + 1;       // last == f^(2^l)
                proof { lemma_rm_p_pos(f, l); lemma_rm_p_pos(f, l - 1); } @*/
            let (new_q, r) = (&q).div_rem(last);
            if r.is_zero() {
                /*@ proof {
                    lemma_rm_step(f, x0, q.v(), exp as int, rm_p(f, l), pow2(l), new_q.v());
                    lemma_rm_exp_bound(f, x0, new_q.v(), exp as int + pow2(l), usize::MAX as int);
                    lemma_rm_shift_ok(l, exp as int + pow2(l));
                    lemma_rm_not_div_quot(q.v(), rm_p(f, l), new_q.v());
                } @*/
                exp += 1 << (pows.len() + 1);
                q = new_q;
            }
        }

        // last division
        /*@ proof { assert(pows@.len() == 0); lemma_rm_p1(f); lemma_ipow_1(f); } @*/
        let (new_q, r) = (&q).div_rem(factor);
        if r.is_zero() {
            /*@ proof {
                lemma_rm_step(f, x0, q.v(), exp as int, f, 1, new_q.v());
                lemma_rm_exp_bound(f, x0, new_q.v(), exp as int + 1, usize::MAX as int);
                lemma_rm_not_div_quot(q.v(), f, new_q.v());
            } @*/
            exp += 1;
            q = new_q;
        }
        /*@ proof { lemma_rm_finish(f, x0, q.v(), exp as int); } @*/

        *self = q;
        Some(exp)
    }
