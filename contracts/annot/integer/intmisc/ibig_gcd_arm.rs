//@ item: integer/src/gcd_ops.rs :: macro impl_ibig_gcd#0 :: @arm
/*@[!inl] requires mag0.wf(), mag1.wf(),
        mag0.v() != 0 || mag1.v() != 0,        // gcd(0, 0) panics (documented)
    // C12: the gcd of the SIGNED operands (by divisibility)
    ensures gcdo_is_gcd(ret.0.v(), sv(sign0, mag0.v()), sv(sign1, mag1.v())), @*/
{
        /*@[!inl] proof { lemma_im_gcd_signs(sign0, mag0.v(), sign1, mag1.v()); } @*/
        /*@[inl] proof { lemma_im_gcd_signs($sign0, $mag0.v(), $sign1, $mag1.v()); } @*/
        let _unused = ($sign0, $sign1);
        UBig($mag0.gcd($mag1))
    }
