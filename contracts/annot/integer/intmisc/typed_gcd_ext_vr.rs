//@ item: integer/src/gcd_ops.rs :: mod repr :: impl<'r> ExtendedGcd<TypedReprRef<'r>> for TypedRepr :: gcd_ext
fn gcd_ext(self, rhs: TypedReprRef<'r>) -> (Repr, Repr, Repr)
/*@ #[hoist(Self = TypedRepr, Name = typed_gcd_ext_vr, Generics = ['r])]
    requires self.wf(), rhs.wf(),
        self.v() != 0 || rhs.v() != 0,      // gcd(0, 0) panics (documented)
        match (self, rhs) { (Large(b0), RefLarge(w1)) => gcd_ext_large_pre(b0@, w1@), _ => true },
    ensures repr_gcd_ext_post(self.v(), rhs.v(), ret.0.v(), ret.1.v(), ret.2.v()),
@*/
{
            match (self, rhs) {
                (Small(dword0), RefSmall(dword1)) => gcd_ext_dword(dword0, dword1),
                (Large(buffer0), RefSmall(dword1)) => gcd_ext_large_dword(buffer0, dword1),
                (Small(dword0), RefLarge(words1)) => {
                    let (g, s, t) = gcd_ext_large_dword(words1.into(), dword0);
                    (g, t, s)
                }
                (Large(buffer0), RefLarge(words1)) => gcd_ext_large(buffer0, words1.into()),
            }
        }
