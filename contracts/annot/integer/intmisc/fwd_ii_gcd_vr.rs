//@ item: integer/src/helper_macros.rs :: macro forward_ibig_binop_to_repr#0 :: impl<'r> $trait<&'r IBig> for IBig :: $method
fn $ method(self, rhs : & IBig) -> $ ty_output
/*@ #[hoist(Self = IBig, Name = fwd_ii_gcd_vr)]
    requires self.0.v() != 0 || rhs.0.v() != 0,   // gcd(0, 0) panics (documented)
    ensures // C12: the gcd of the (signed) operands, by divisibility
        gcdo_is_gcd(ret.0.v(), self.0.v(), rhs.0.v()),
@*/
{
                /*@ proof { lemma_im_sv_abs(self.0.v()); lemma_im_sv_abs(rhs.0.v()); } @*/
                let (sign0, mag0) = self.into_sign_repr();
let (sign1, mag1) = rhs.as_sign_repr();
$ impl !(sign0, mag0, sign1, mag1)
            }
