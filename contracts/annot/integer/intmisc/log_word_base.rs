//@ item: integer/src/log.rs :: mod repr :: log_word_base
pub(crate) fn log_word_base(target: &[Word], base: Word) -> (usize, Repr)
/*@ #[float_est(est)] #[assert_guard]
    requires
        // call site (TypedReprRef::log): target is a `Large` magnitude, the base a word that is not 0, 1, 2
        target@.len() >= 3, target@[target@.len() - 1] != 0,
        base > 2,
        im_bits() * target@.len() < max_capacity(),          // resource: pow_word_base allocates est words (lib/im_log_word_est.rs)
    ensures
        // C12: base^e <= target < base^(e+1), and the power itself -- for an ARBITRARY float estimate >= 1 (rule D10b)
        im_is_log(base as int, val(target@), ret.0 as int),
        ret.1.v() == ipow(base as int, ret.0 as int),
@*/
{
    /*@ let ghost b = base as int; let ghost t = val(target@); let ghost tl = target@.len() as int;
        proof { lemma_valn_bound(target@, tl); lemma_im_cap_bits(); lemma_ipow_1(b);
            assert(im_bits() * tl >= tl + 1) by (nonlinear_arith) requires im_bits() >= 2, tl >= 3; } @*/
    let log2_self = log2_bounds_large(target).0;
    let (wexp, wbase) = if base == 10 {
        // specialize for base 10, which is cached in radix_info
        (radix::RADIX10_INFO.digits_per_word, radix::RADIX10_INFO.range_per_word)
    } else {
        max_exp_in_word(base)
    };
    let log2_wbase = wbase.log2_bounds().1;
    /*@ let ghost we = wexp as int; let ghost wb = wbase as int;
        proof { lemma_ipow_ge_base(b, 2, we); } @*/

    let mut est = (log2_self * wexp as f32 / log2_wbase) as usize; // est >= 1
    /*@ proof { lemma_ipow_pos(b, est as int); } @*/
    let mut est_pow = if est == 1 {
        Repr::from_word(base)
    } else {
        pow::repr::pow_word_base(base, est)
    }
    .into_buffer();
    /*@ proof { lemma_im_nonempty(est_pow@, 1); } @*/
    assert!(cmp_in_place(&est_pow, target).is_le());

    // first proceed by multiplying wbase, which should happen very rarely
    while est_pow.len() < target.len()
    /*@
        invariant
            b == base as int, b > 2, t == val(target@), tl == target@.len(), tl >= 3, target@[tl - 1] != 0, t < pw(tl),
            im_bits() * tl < max_capacity(), im_bits() * max_capacity() <= usize::MAX,
            we == wexp as int, wb == wbase as int, we >= 1, wb == ipow(b, we), wb >= 2,
            est_pow@.len() >= 1, est_pow@[est_pow@.len() - 1] != 0, est_pow.capacity() >= 3,
            val(est_pow@) == ipow(b, est as int), val(est_pow@) <= t,
        decreases t - val(est_pow@),
    @*/
    {
        /*@ let ghost checked = est_pow@.len() == tl - 1;
            proof { lemma_im_dword_prod(est_pow@[est_pow@.len() - 1] as int, wb); } @*/
        if est_pow.len() == target.len() - 1 {
            let target_hi = highest_dword(target);
            let next_hi = (extend_word(*est_pow.last().unwrap()) + 1) * extend_word(wbase); // overestimate
            if next_hi > target_hi {
                break;
            }
        }
        /*@ let ghost r0 = est_pow@;
            proof {
                lemma_im_lw_grow(r0, target@, wb, checked);
                lemma_im_log_step_k(b, est as int, val(r0), we, wb);
                lemma_im_exp_small(b, est as int + we, t, tl);
            } @*/
        let carry = mul::mul_word_in_place(&mut est_pow, wbase);
        /*@ let ghost r1 = est_pow@; @*/
        est_pow.push_resizing(carry);
        /*@ proof { lemma_im_mul_push(r0, r1, carry, wb, est_pow@); } @*/
        est += wexp;
    }

    // then proceed by multiplying base, which can require a few steps
    loop
    /*@
        invariant_except_break
            val(est_pow@) == ipow(b, est as int),
            est_pow@.len() >= 1, est_pow@[est_pow@.len() - 1] != 0,
            val(est_pow@) > t ==> est >= 1 && ipow(b, est as int - 1) < t,
        invariant
            b == base as int, b > 2, t == val(target@), tl == target@.len(), tl >= 3, target@[tl - 1] != 0, t < pw(tl),
            im_bits() * tl < max_capacity(), im_bits() * max_capacity() <= usize::MAX,
            est_pow.capacity() >= 3,
        ensures
            val(est_pow@) == ipow(b, est as int), val(est_pow@) <= t, t < ipow(b, est as int + 1),
        decreases (if val(est_pow@) < t { t - val(est_pow@) } else { 0 }),
    @*/
    {
        /*@ let ghost r0 = est_pow@; let ghost e0 = est as int;
            proof { lemma_im_log_step(b, e0, val(r0)); } @*/
        match cmp_in_place(&est_pow, target) {
            Ordering::Less => {
                /*@ proof { lemma_im_exp_small(b, e0, t, tl); } @*/
                let carry = mul::mul_word_in_place(&mut est_pow, base);
                /*@ let ghost r1 = est_pow@; @*/
                est_pow.push_resizing(carry);
                /*@ proof { lemma_im_mul_push(r0, r1, carry, b, est_pow@); } @*/
                est += 1;
            }
            Ordering::Equal => break,
            Ordering::Greater => {
                // recover the over estimate
                /*@ proof { lemma_im_log_step(b, e0 - 1, ipow(b, e0 - 1)); } @*/
                debug_assert_zero!(div::div_by_word_in_place(&mut est_pow, base));
                /*@ proof { lemma_im_exact_div(val(r0), b, ipow(b, e0 - 1), val(est_pow@), __zchk0 as int); } @*/
                est -= 1;
                break;
            }
        }
    }

    (est, Repr::from_buffer(est_pow))
}
