//@ item: integer/src/gcd_ops.rs :: mod repr :: impl<'l, 'r> ExtendedGcd<TypedReprRef<'r>> for TypedReprRef<'l> :: gcd_ext
fn gcd_ext(self, rhs: TypedReprRef<'r>) -> (Repr, Repr, Repr)
/*@ #[hoist(Self = TypedReprRef<'l>, Name = typed_gcd_ext_rr, Generics = ['l, 'r])]
    requires self.wf(), rhs.wf(),
        self.v() != 0 || rhs.v() != 0,      // gcd(0, 0) panics (documented)
        // two `Large` operands: resource bound (lib/gcdo_ops_stubs.rs gcd_ext_large_pre)
        match (self, rhs) { (RefLarge(w0), RefLarge(w1)) => gcd_ext_large_pre(w0@, w1@), _ => true },
    // C12 / C15: g = gcd(self, rhs) (g >= 1, g | self, g | rhs) and s * self + t * rhs == g, (s, t) in the order (self, rhs).
    // NO annotation inside the arms: an arm that is rewritten (e.g. the coefficient swap dropped) is judged by this contract
    ensures repr_gcd_ext_post(self.v(), rhs.v(), ret.0.v(), ret.1.v(), ret.2.v()),
@*/
{
            match (self, rhs) {
                (RefSmall(dword0), RefSmall(dword1)) => gcd_ext_dword(dword0, dword1),
                (RefLarge(words0), RefSmall(dword1)) => gcd_ext_large_dword(words0.into(), dword1),
                (RefSmall(dword0), RefLarge(words1)) => {
                    let (g, s, t) = gcd_ext_large_dword(words1.into(), dword0);
                    (g, t, s)
                }
                (RefLarge(words0), RefLarge(words1)) => gcd_ext_large(words0.into(), words1.into()),
            }
        }
