//@ item: integer/src/helper_macros.rs :: macro forward_ubig_binop_to_repr#1 :: impl<'l> $trait<UBig> for &'l UBig :: $method
fn $ method(self, rhs : UBig) -> UBig
/*@ #[hoist(Self = &'l UBig, Name = fwd_uu_gcd_rv, Generics = ['l])]
    requires self.0.v() >= 0,                     // invariant of UBig
        rhs.0.v() >= 0,                      // invariant of UBig
        self.0.v() != 0 || rhs.0.v() != 0,   // gcd(0, 0) panics (documented)
    ensures // C12: the gcd of the (signed) operands, by divisibility
        gcdo_is_gcd(ret.0.v(), self.0.v(), rhs.0.v()),
@*/
{
                UBig(self.repr().$ forward(rhs.into_repr()))
            }
