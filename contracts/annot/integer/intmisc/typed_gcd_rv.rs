//@ item: integer/src/gcd_ops.rs :: mod repr :: impl<'l> Gcd<TypedRepr> for TypedReprRef<'l> :: gcd
fn gcd(self, rhs: TypedRepr) -> Self::Output
/*@ #[hoist(Self = TypedReprRef<'l>, Name = typed_gcd_rv, Generics = ['l], Output = Repr)]
    requires self.wf(), rhs.wf(),
        self.v() != 0 || rhs.v() != 0,      // gcd(0, 0) panics (documented)
    ensures gcdo_is_gcd(ret.v(), self.v(), rhs.v()),
@*/
{
            self.gcd(rhs.as_ref())
        }
