//@ item: integer/src/repr.rs :: impl TypedRepr :: as_ref
pub fn as_ref(&self) -> TypedReprRef
/*@ ensures ret.v() == self.v(), ret.wf() == self.wf(), ret.nwords() == self.nwords(),
        // the same variant over the same words
        match (*self, ret) { (TypedRepr::Small(a), TypedReprRef::RefSmall(b)) => a == b,
                             (TypedRepr::Large(a), TypedReprRef::RefLarge(b)) => a@ == b@, _ => false },
@*/
{
        match self {
            Self::Small(dword) => TypedReprRef::RefSmall(*dword),
            Self::Large(words) => TypedReprRef::RefLarge(words),
        }
    }
