//@ item: integer/src/gcd_ops.rs :: macro impl_ubig_gcd_ext#0 :: @arm
/*@[!inl] requires repr0.wf(), repr1.wf(),
        repr0.v() != 0 || repr1.v() != 0,      // gcd_ext(0, 0) panics (documented)
        im_gcd_ext_res(repr0.nwords(), repr1.nwords()),   // resource bound for two `Large` operands
    // C12 / C15: g = gcd(a, b), s*a + t*b == g with (s, t) in the order (self, rhs)
    ensures repr_gcd_ext_post(repr0.v(), repr1.v(), ret.0.0.v(), ret.1.0.v(), ret.2.0.v()), @*/
{
        let (r, s, t) = $repr0.gcd_ext($repr1);
        (UBig(r), IBig(s), IBig(t))
    }
