//@ item: integer/src/gcd_ops.rs :: mod repr :: impl ExtendedGcd<TypedRepr> for TypedRepr :: gcd_ext
fn gcd_ext(self, rhs: TypedRepr) -> (Repr, Repr, Repr)
/*@ #[hoist(Self = TypedRepr, Name = typed_gcd_ext_vv)]
    requires self.wf(), rhs.wf(),
        self.v() != 0 || rhs.v() != 0,      // gcd(0, 0) panics (documented)
        match (self, rhs) { (Large(b0), Large(b1)) => gcd_ext_large_pre(b0@, b1@), _ => true },
    ensures repr_gcd_ext_post(self.v(), rhs.v(), ret.0.v(), ret.1.v(), ret.2.v()),
@*/
{
            match (self, rhs) {
                (Small(dword0), Small(dword1)) => gcd_ext_dword(dword0, dword1),
                (Large(buffer0), Small(dword1)) => gcd_ext_large_dword(buffer0, dword1),
                (Small(dword0), Large(buffer1)) => {
                    let (g, s, t) = gcd_ext_large_dword(buffer1, dword0);
                    (g, t, s)
                }
                (Large(buffer0), Large(buffer1)) => gcd_ext_large(buffer0, buffer1),
            }
        }
