//@ item: integer/src/helper_macros.rs :: macro forward_ibig_ubig_binop_to_repr#0 :: impl<'l> $trait<UBig> for &'l IBig :: $method
fn $ method(self, rhs : UBig) -> $ ty_output
/*@ #[hoist(Self = &'l IBig, Name = fwd_iu_gcd_rv, Generics = ['l])]
    requires rhs.0.v() >= 0,                      // invariant of UBig
        self.0.v() != 0 || rhs.0.v() != 0,   // gcd(0, 0) panics (documented)
    ensures // C12: the gcd of the (signed) operands, by divisibility
        gcdo_is_gcd(ret.0.v(), self.0.v(), rhs.0.v()),
@*/
{
                /*@ proof { lemma_im_sv_abs(self.0.v()); lemma_im_sv_abs(rhs.0.v()); } @*/
                let (lhs_sign, lhs_mag) = self.as_sign_repr();
let (rhs_sign, rhs_mag) = (dashu_base::Sign::Positive, rhs.into_repr());
$ impl !(lhs_sign, lhs_mag, rhs_sign, rhs_mag)
            }
