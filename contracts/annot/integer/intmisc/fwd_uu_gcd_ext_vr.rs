//@ item: integer/src/helper_macros.rs :: macro forward_ubig_binop_to_repr#2 :: impl<'r> $trait<&'r UBig> for UBig :: $method
fn $ method(self, rhs : & UBig) -> $ omethod
/*@ #[hoist(Self = UBig, Name = fwd_uu_gcd_ext_vr)]
    requires self.0.v() >= 0,                     // invariant of UBig
        rhs.0.v() >= 0,                      // invariant of UBig
        self.0.v() != 0 || rhs.0.v() != 0,   // gcd_ext(0, 0) panics (documented)
        im_gcd_fits(self.0.v()), im_gcd_fits(rhs.0.v()),   // resource bound (two `Large` operands)
    ensures // C12 / C15: g = gcd(self, rhs), s * self + t * rhs == g with (s, t) in the order (self, rhs), SIGNED operands
        repr_gcd_ext_post(self.0.v(), rhs.0.v(), ret.0.0.v(), ret.1.0.v(), ret.2.0.v()),
@*/
{
                /*@ proof { lemma_im_gcd_fits(self.0.v()); lemma_im_gcd_fits(rhs.0.v()); } @*/
                let (repr0, repr1) = (self.into_repr(), rhs.repr());
$ impl !(repr0, repr1)
            }
