//@ item: integer/src/gcd_ops.rs :: macro impl_ibig_gcd_ext#0 :: @arm
/*@[!inl] requires mag0.wf(), mag1.wf(),
        mag0.v() != 0 || mag1.v() != 0,        // gcd_ext(0, 0) panics (documented)
        im_gcd_ext_res(mag0.nwords(), mag1.nwords()),     // resource bound for two `Large` operands
    // C12 / C15 on the SIGNED operands a = sign0 * mag0, b = sign1 * mag1: g >= 1, g | a, g | b, s*a + t*b == g
    ensures repr_gcd_ext_post(sv(sign0, mag0.v()), sv(sign1, mag1.v()), ret.0.0.v(), ret.1.0.v(), ret.2.0.v()), @*/
{
        /*@[!inl] proof { lemma_im_gcd_ext_signs(sign0, mag0.v(), sign1, mag1.v()); } @*/
        /*@[inl] proof { lemma_im_gcd_ext_signs($sign0, $mag0.v(), $sign1, $mag1.v()); } @*/
        let (r, s, t) = $mag0.gcd_ext($mag1);
        (UBig(r), $sign0 * IBig(s), $sign1 * IBig(t))
    }
