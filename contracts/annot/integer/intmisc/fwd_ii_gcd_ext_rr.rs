//@ item: integer/src/helper_macros.rs :: macro forward_ibig_binop_to_repr#1 :: impl<'l, 'r> $trait<&'r IBig> for &'l IBig :: $method
fn $ method(self, rhs : & IBig) -> $ omethod
/*@ #[hoist(Self = &'l IBig, Name = fwd_ii_gcd_ext_rr, Generics = ['l])]
    requires self.0.v() != 0 || rhs.0.v() != 0,   // gcd_ext(0, 0) panics (documented)
        im_gcd_fits(iabs(self.0.v())), im_gcd_fits(iabs(rhs.0.v())),   // resource bound (two `Large` operands)
    ensures // C12 / C15: g = gcd(self, rhs), s * self + t * rhs == g with (s, t) in the order (self, rhs), SIGNED operands
        repr_gcd_ext_post(self.0.v(), rhs.0.v(), ret.0.0.v(), ret.1.0.v(), ret.2.0.v()),
@*/
{
                /*@ proof { lemma_im_gcd_fits(iabs(self.0.v())); lemma_im_gcd_fits(iabs(rhs.0.v())); lemma_im_sv_abs(self.0.v()); lemma_im_sv_abs(rhs.0.v()); } @*/
                let (sign0, mag0) = self.as_sign_repr();
let (sign1, mag1) = rhs.as_sign_repr();
$ impl !(sign0, mag0, sign1, mag1)
            }
