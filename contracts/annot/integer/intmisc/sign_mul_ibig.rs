//@ item: integer/src/sign.rs :: impl Mul<IBig> for Sign :: mul
fn mul(self, rhs: IBig) -> Self::Output
/*@ #[hoist(Self = Sign, Name = sign_mul_ibig, Output = IBig)]
    ensures self == Sign::Positive ==> ret.0.v() == rhs.0.v(),
        self == Sign::Negative ==> ret.0.v() == -rhs.0.v(),
@*/
{
        let sign = self * rhs.sign();
        IBig(rhs.0.with_sign(sign))
    }
