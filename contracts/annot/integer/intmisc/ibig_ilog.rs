//@ item: integer/src/log.rs :: impl IBig :: ilog
pub fn ilog(&self, base: &UBig) -> usize
/*@ #[hoist(Self = IBig, Name = ibig_ilog)]
    requires base.0.v() >= 0,                          // invariant of UBig
        self.0.v() != 0, base.0.v() >= 2,              // documented panics: "Panics if the number is 0, or the base is 0 or 1"
        im_log_fits(iabs(self.0.v())),                 // resource (trial powers)
    // C12: ilog(x, b) = e satisfies b^e <= |x| < b^(e+1)
    ensures im_is_log(base.0.v(), iabs(self.0.v()), ret as int),
@*/
{
        /*@ proof { lemma_im_log_fits(iabs(self.0.v())); } @*/
        self.as_sign_repr().1.log(base.repr()).0
    }
