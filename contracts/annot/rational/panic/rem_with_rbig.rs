//@ item: rational/src/div.rs :: macro impl_rem_with_rbig#0 :: @arm
// must_panic reading (rule D4) of the arm: the arm has no guard of its own, the zero divisor reaches the integer operation
// `left.$method(right)` whose stub (lib/rp_stubs.rs, TRUSTED) never returns for a zero divisor; the proof obligation is that
// the divisor handed over IS zero and that nothing returns earlier.
/*@[must_panic] requires b.v() > 0, d.v() > 0, c.v() == 0,   // C04: `%` by the rational zero panics
        ra.v() == a.v(), rb.v() == b.v(), rc.v() == c.v(), rd.v() == d.v(), @*/
/*@[must_panic] ensures false, @*/
{
        let _unused = ($ra, $rc);
        let g_bd = Gcd::gcd($rb, $rd);
        /*@ let ghost g = g_bd.v();
            proof { lemma_exact_div(d.v(), g); lemma_exact_div(b.v(), g); } @*/

        // a/b % c/d = (ad % bc)/bd
        let ddg = $d / &g_bd;
        let left = &ddg * $a;
        let right = $rb / &g_bd * $c.unsigned_abs();
        /*@ proof {
            let bg = b.v() / g;
            assert(bg * 0 == 0);
            assert(right.v() == 0);
        } @*/

        let (sign, r1) = left.$method(&right).into_parts();
        let r2 = right - &r1;
        let rem = if r1 < r2 {
            IBig::from_parts(sign, r1)
        } else {
            IBig::from_parts(-sign, r2)
        };

        RBig::from_parts(rem, $b * ddg)
    }
