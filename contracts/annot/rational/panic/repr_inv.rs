//@ item: rational/src/div.rs :: impl Inverse for Repr :: inv
// must_panic reading (rule D4): the reciprocal of zero panics (C04 "division by zero panics"; a normal return would be the
// non-value 1/0).  The value-level contract (numerator != 0) lives in contracts/annot/rational/div/repr_inv.rs.
fn inv(self) -> Repr
/*@[must_panic] #[hoist(Self = Repr)]
    requires self.numerator.v() == 0,
    ensures false, @*/
{
    if self.numerator.is_zero() {
        panic_divide_by_0()
    }
    let (sign, num) = self.numerator.into_parts();
    Repr {
        numerator: IBig::from_parts(sign, self.denominator),
        denominator: num,
    }
}
