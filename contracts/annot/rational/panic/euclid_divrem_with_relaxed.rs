//@ item: rational/src/div.rs :: macro impl_euclid_divrem_with_relaxed#0 :: @arm
// must_panic reading (rule D4) of the arm: the arm has no guard of its own, the zero divisor reaches the integer operation
// `left.$method(right)` whose stub (lib/rp_stubs.rs, TRUSTED) never returns for a zero divisor; the proof obligation is that
// the divisor handed over IS zero and that nothing returns earlier.
/*@[must_panic] requires b.v() > 0, d.v() > 0, c.v() == 0,   // C04: div_rem_euclid by the rational zero panics
        ra.v() == a.v(), rb.v() == b.v(), rc.v() == c.v(), rd.v() == d.v(), @*/
/*@[must_panic] ensures false, @*/
{
        let _unused = ($ra, $rc);

        let (left, right) = ($a * $rd, $c * $rb);
        /*@ proof {
            assert(0 * b.v() == 0);
            assert(right.v() == 0);
        } @*/
        let (q, r) = left.$method(right).into();
        (q, Relaxed::from_parts(r.into(), $b * $d))
    }
