//@ item: rational/src/div.rs :: impl Inverse for RBig :: inv
// must_panic reading (rule D4): inverting the rational zero panics -- over the must_panic contract of `Inverse for Repr`
// (proved in the same unit from annot/rational/panic/repr_inv.rs, repeated for the callers in lib/rp_inv_stubs.rs).
fn inv(self) -> RBig
/*@[must_panic] #[hoist(Self = RBig, Output = RBig, Name = rbig_inv)]
    requires self.0.numerator.v() == 0,
    ensures false, @*/
{
    RBig(self.0.inv())
}
