//@ item: rational/src/div.rs :: macro impl_div_with_rbig#0 :: @arm
// must_panic reading (rule D4) of the arm: with a zero divisor no normal return is possible.  The value-level contract
// of the same arm (divisor != 0) lives in the copy under contracts/annot/rational/{div,intops,rem}/.
/*@[must_panic] requires b.v() > 0, d.v() > 0, c.v() == 0,   // C04: division by zero panics -- a zero divisor leaves no normal return
        ra.v() == a.v(), rb.v() == b.v(), rc.v() == c.v(), rd.v() == d.v(), @*/
/*@[must_panic] ensures false, @*/
{
        if $rc.is_zero() {
            panic_divide_by_0()
        }

        // a/b / c/d = (ad)/gcd(a,c)/gcd(b,d)/(bc)
        let g_ac = $ra.gcd($rc);
        let g_bd = $rb.gcd($rd);
        RBig(Repr {
            numerator: ($a / &g_ac) * ($d / &g_bd) * $c.sign(),
            denominator: ($b / g_bd) * ($c.unsigned_abs() / g_ac),
        })
    }
