//@ item: rational/src/div.rs :: macro impl_ubig_or_ibig_div_relaxed#0 :: @arm
// must_panic reading (rule D4) of the arm: with a zero divisor no normal return is possible.  The value-level contract
// of the same arm (divisor != 0) lives in the copy under contracts/annot/rational/{div,intops,rem}/.
/*@[must_panic] requires b.v() > 0, a.v() == 0,   // C04: an integer divided by the rational zero (a/b with a == 0) panics
        ra.v() == a.v(), rb.v() == b.v(), ri.v() == i.v(), @*/
/*@[must_panic] ensures false, @*/
{
        if $ra.is_zero() {
            panic_divide_by_0()
        }

        let _unused = ($ra, $rb, $ri);
        Relaxed::from_parts($b * $i * $a.sign(), $a.unsigned_abs())
    }
