//@ item: rational/src/div.rs :: macro impl_relaxed_div_ubig#0 :: @arm
// must_panic reading (rule D4) of the arm: with a zero divisor no normal return is possible.  The value-level contract
// of the same arm (divisor != 0) lives in the copy under contracts/annot/rational/{div,intops,rem}/.
/*@[must_panic] requires b.v() > 0, i.v() == 0,   // C04: division by the integer zero panics
        ra.v() == a.v(), rb.v() == b.v(), ri.v() == i.v(), @*/
/*@[must_panic] ensures false, @*/
{
        if $ri.is_zero() {
            panic_divide_by_0()
        }

        let _unused = ($ra, $rb);
        Relaxed::from_parts($a, $b * $i)
    }
