//@ item: rational/src/error.rs :: panic_divide_by_0
// Rule D4: the crate's diverging panic helper (its body is `panic!(..)`, TRUSTED never to return).  In the default ("total")
// variant its precondition is `false`: a verified caller proves the panic unreachable under its own precondition
// (divisor != 0).  In the `must_panic` variant it ensures `false` (it never returns), so a caller with the contract
// `requires divisor == 0 ensures false` proves that no normal return is possible: division by zero panics.
pub const fn panic_divide_by_0() -> !
/*@[!must_panic] requires false, @*/
/*@[must_panic] ensures false, @*/
{
    panic!("Divisor or denominator must not be zero!")
}
