//@ item: rational/src/add.rs :: macro impl_addsub_with_relaxed#0 :: @arm
/*@ requires b.v() > 0, d.v() > 0, ra.v() == a.v(), rb.v() == b.v(), rc.v() == c.v(), rd.v() == d.v(), @*/
/*@[add] ensures ret.0.numerator.v() * (b.v() * d.v()) == (a.v() * d.v() + c.v() * b.v()) * ret.0.denominator.v(),
        ret.0.denominator.v() >= 1, @*/
/*@[sub] ensures ret.0.numerator.v() * (b.v() * d.v()) == (a.v() * d.v() - c.v() * b.v()) * ret.0.denominator.v(),
        ret.0.denominator.v() >= 1, @*/
{
        let _unused = ($ra, $rc);
        /*@ proof { assert(b.v() * d.v() >= 1) by (nonlinear_arith) requires b.v() >= 1, d.v() >= 1; } @*/
        Relaxed::from_parts(($a * $rd).$method($c * $rb), $b * $d)
}
