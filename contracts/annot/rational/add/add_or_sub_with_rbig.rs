//@ item: rational/src/add.rs :: macro impl_add_or_sub_with_rbig#0 :: @arm
/*@ requires b.v() > 0, d.v() > 0, ra.v() == a.v(), rb.v() == b.v(), rc.v() == c.v(), rd.v() == d.v(), @*/
/*@[add] ensures ret.0.numerator.v() * (b.v() * d.v()) == (a.v() * d.v() + c.v() * b.v()) * ret.0.denominator.v(),
        ret.0.denominator.v() >= 1,
        wf_ratio(a.v(), b.v()) && wf_ratio(c.v(), d.v()) ==> wf_ratio(ret.0.numerator.v(), ret.0.denominator.v()), @*/
/*@[sub] ensures ret.0.numerator.v() * (b.v() * d.v()) == (a.v() * d.v() - c.v() * b.v()) * ret.0.denominator.v(),
        ret.0.denominator.v() >= 1,
        wf_ratio(a.v(), b.v()) && wf_ratio(c.v(), d.v()) ==> wf_ratio(ret.0.numerator.v(), ret.0.denominator.v()), @*/
{
        let _unused = ($ra, $rc);
        let g_bd = Gcd::gcd($rb, $rd);
        /*@ let ghost g = g_bd.v(); @*/

        // a/b ± c/d = (ad ± bc)/bd
        let repr = if g_bd.is_one() {
            let left = $a * $rd;
            let right = $c * $rb;
            /*@ proof {
                assert(b.v() * d.v() >= 1) by (nonlinear_arith) requires b.v() >= 1, d.v() >= 1;
            } @*/
            Repr {
                numerator: left.$method(right),
                denominator: $b * $d,
            }
        } else {
            /*@ proof { lemma_exact_div(d.v(), g); lemma_exact_div(b.v(), g); } @*/
            let ddg = $d / &g_bd;
            let left = &ddg * $a;
            let right = $rb / &g_bd * $c;
            /*@ proof {
                assert(b.v() * ddg.v() >= 1) by (nonlinear_arith) requires b.v() >= 1, ddg.v() >= 1;
            } @*/
            Repr {
                numerator: left.$method(right),
                denominator: $b * ddg,
            }
            .reduce_with_hint(g_bd)
        };
        /*@[add] proof { lemma_rbig_addsub(a.v(), b.v(), c.v(), d.v(), g, repr.numerator.v(), repr.denominator.v()); } @*/
        /*@[sub] proof {
            assert((-c.v()) * b.v() == -(c.v() * b.v())) by (nonlinear_arith);
            if g != 1 {
                assert((b.v() / g) * (-c.v()) == -((b.v() / g) * c.v())) by (nonlinear_arith);
            }
            if wf_ratio(c.v(), d.v()) { lemma_wf_sign(c.v(), d.v(), -1); }
            lemma_rbig_addsub(a.v(), b.v(), -c.v(), d.v(), g, repr.numerator.v(), repr.denominator.v());
        } @*/

        RBig(repr)
}
