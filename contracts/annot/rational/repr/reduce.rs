//@ item: rational/src/repr.rs :: impl Repr :: reduce
pub fn reduce(self) -> Repr
/*@ requires self.denominator.v() > 0,
    ensures ret.numerator.v() * self.denominator.v() == self.numerator.v() * ret.denominator.v(),
        wf_ratio(ret.numerator.v(), ret.denominator.v()), @*/
{
    if self.numerator.is_zero() {
        /*@ proof { lemma_wf_zero(); } @*/
        return Repr::zero();
    }

    let g = (&self.numerator).gcd(&self.denominator);
    Repr {
        numerator: self.numerator / &g,
        denominator: self.denominator / g,
    }
    /*@ proof { lemma_reduce(self.numerator.v(), self.denominator.v(), g.v(), ret.numerator.v(), ret.denominator.v()); } @*/
}
