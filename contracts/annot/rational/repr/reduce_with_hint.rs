//@ item: rational/src/repr.rs :: impl Repr :: reduce_with_hint
pub fn reduce_with_hint(self, hint: UBig) -> Repr
/*@ requires self.denominator.v() > 0,
    ensures ret.numerator.v() * self.denominator.v() == self.numerator.v() * ret.denominator.v(),
        ret.denominator.v() >= 1,
        self.numerator.v() == 0 ==> ret.denominator.v() == 1, @*/
{
    if self.numerator.is_zero() {
        return Repr::zero();
    }

    let g = hint.gcd(&self.numerator).gcd(&self.denominator);
    /*@ proof { lemma_hint_gcd_divides(hint.v(), self.numerator.v(), self.denominator.v(), g.v()); } @*/
    Repr {
        numerator: self.numerator / &g,
        denominator: self.denominator / g,
    }
    /*@ proof { lemma_cancel(self.numerator.v(), self.denominator.v(), g.v(), ret.numerator.v(), ret.denominator.v()); } @*/
}
