//@ item: rational/src/repr.rs :: impl Repr :: reduce_with_hint
pub fn reduce_with_hint(self, hint: UBig) -> Repr
/*@ requires self.denominator.v() > 0,
    ensures ret.numerator.v() * self.denominator.v() == self.numerator.v() * ret.denominator.v(),
        ret.denominator.v() >= 1,
        self.numerator.v() == 0 ==> ret.numerator.v() == 0 && ret.denominator.v() == 1,
        self.numerator.v() != 0 ==> exists|g1: int, h: int| #[trigger] hint_red(hint.v(), self.numerator.v(),
            self.denominator.v(), g1, h, ret.numerator.v(), ret.denominator.v()), @*/
{
    if self.numerator.is_zero() {
        return Repr::zero();
    }

    /*@ let ghost n0 = self.numerator.v(); let ghost d0 = self.denominator.v(); @*/
    let g = hint.gcd(&self.numerator).gcd(&self.denominator);
    /*@ proof { lemma_hint_gcd_divides(hint.v(), self.numerator.v(), self.denominator.v(), g.v()); } @*/
    Repr {
        numerator: self.numerator / &g,
        denominator: self.denominator / g,
    }
    /*@ proof {
        lemma_cancel(n0, d0, g.v(), ret.numerator.v(), ret.denominator.v());
        let g1 = choose|g1: int| is_gcd(g1, rabs(hint.v()), rabs(n0)) && #[trigger] is_gcd(g.v(), rabs(g1), rabs(d0));
        assert(hint_red(hint.v(), n0, d0, g1, g.v(), ret.numerator.v(), ret.denominator.v()));
    } @*/
}
