//@ item: rational/src/repr.rs :: impl Repr :: reduce2
pub fn reduce2(self) -> Repr
/*@ requires self.denominator.v() > 0,
    ensures ret.numerator.v() * self.denominator.v() == self.numerator.v() * ret.denominator.v(),
        ret.denominator.v() >= 1,
        self.numerator.v() == 0 ==> ret.denominator.v() == 1, @*/
{
    if self.numerator.is_zero() {
        return Repr::zero();
    }

    let n_zeros = self.numerator.trailing_zeros().unwrap_or_default();
    let d_zeros = self.denominator.trailing_zeros().unwrap();
    let zeros = n_zeros.min(d_zeros);

    if zeros > 0 {
        /*@ proof { lemma_reduce2(self.numerator.v(), self.denominator.v(), n_zeros as int, d_zeros as int, zeros as int); } @*/
        Repr {
            numerator: self.numerator >> zeros,
            denominator: self.denominator >> zeros,
        }
    } else {
        self
    }
}
