//@ item: rational/src/cmp.rs :: impl PartialOrd for Repr :: partial_cmp
fn partial_cmp(&self, other: &Self) -> Option<Ordering>
/*@ #[hoist(Self = Repr, Name = repr_partial_cmp)] @*/
/*@
    requires self.denominator.v() > 0, other.denominator.v() > 0,
    ensures ret == Some(cmp_int(self.numerator.v() * other.denominator.v(), other.numerator.v() * self.denominator.v())),
@*/
{
        Some(self.cmp(other))
    }
