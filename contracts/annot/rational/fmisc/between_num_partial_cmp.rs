//@ item: rational/src/third_party/num_order.rs :: macro impl_ord_between_ratio#0 :: impl NumOrd<$t2> for $t1 :: num_partial_cmp
fn num_partial_cmp(&self, other: &$t2) -> Option<Ordering>
/*@[RBig] #[hoist(Self = RBig, Name = between_num_partial_cmp)] @*/
/*@[Relaxed] #[hoist(Self = Relaxed, Name = between_num_partial_cmp)] @*/
/*@
    // positive denominators: the invariant of RBig (canonical) and of Relaxed (documented: "the denominator is positive");
    // NOTHING is asked about common factors: the Relaxed operand may be non-reduced
    requires self.0.denominator.v() > 0, other.0.denominator.v() > 0,
    // C14: the ordering of the exact values (always comparable)
    ensures ret == Some(cmp_int(self.0.numerator.v() * other.0.denominator.v(), other.0.numerator.v() * self.0.denominator.v())),
@*/
{
                Some(self.0.cmp(&other.0))
            }
