//@ item: rational/src/cmp.rs :: impl PartialEq for Repr :: eq
fn eq(&self, other: &Self) -> bool
/*@ #[hoist(Self = Repr, Name = repr_partial_eq)] @*/
/*@
    // positive denominators: invariant of every Repr inside an RBig / Relaxed (a trait method cannot state it: hoisted)
    requires self.denominator.v() > 0, other.denominator.v() > 0,
    ensures ret == (self.numerator.v() * other.denominator.v() == other.numerator.v() * self.denominator.v()),
@*/
{
        repr_eq::<false>(self, other)
    }
