//@ item: rational/src/third_party/num_order.rs :: macro impl_ord_between_ratio#0 :: impl NumOrd<$t2> for $t1 :: num_eq
fn num_eq(&self, other: &$t2) -> bool
/*@[RBig] #[hoist(Self = RBig, Name = between_num_eq)] @*/
/*@[Relaxed] #[hoist(Self = Relaxed, Name = between_num_eq)] @*/
/*@
    // positive denominators: the invariant of RBig (canonical) and of Relaxed (documented: "the denominator is positive");
    // NOTHING is asked about common factors: the Relaxed operand may be non-reduced
    requires self.0.denominator.v() > 0, other.0.denominator.v() > 0,
    // C14: equal exactly when the exact values n1/d1 and n2/d2 are equal (cross-multiplied)
    ensures ret == (self.0.numerator.v() * other.0.denominator.v() == other.0.numerator.v() * self.0.denominator.v()),
@*/
{
                self.0.eq(&other.0)
            }
