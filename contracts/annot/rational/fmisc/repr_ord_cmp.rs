//@ item: rational/src/cmp.rs :: impl Ord for Repr :: cmp
fn cmp(&self, other: &Self) -> Ordering
/*@ #[hoist(Self = Repr, Name = repr_ord_cmp)] @*/
/*@
    requires self.denominator.v() > 0, other.denominator.v() > 0,
    ensures ret == cmp_int(self.numerator.v() * other.denominator.v(), other.numerator.v() * self.denominator.v()),
@*/
{
        repr_cmp::<false>(self, other)
    }
