//@ item: rational/src/rbig.rs :: impl RBig :: from_parts_const
// must_panic reading (rule D4) of the const constructor: a ZERO DENOMINATOR PANICS WHATEVER THE NUMERATOR IS (C16
// "panics under the documented precondition ... instead of returning a number"; in particular 0/0 must not yield
// RBig::ZERO).  The value-level contract (denominator != 0) lives in contracts/annot/rational/ctor/rbig_from_parts_const.rs.
pub const fn from_parts_const(
    sign: Sign,
    mut numerator: DoubleWord,
    mut denominator: DoubleWord,
) -> Self
/*@[must_panic]
    requires denominator == 0,
    ensures false, @*/
{
    if denominator == 0 {
        panic_divide_by_0()
    } else if numerator == 0 {
        return Self::ZERO;
    }

    if numerator > 1 && denominator > 1 {
        // perform a naive but const gcd
        let (mut y, mut r) = (denominator, numerator % denominator);
        while r > 1
        /*@ // unreachable under the must_panic precondition: the guard above never returns for denominator == 0
            invariant false,
            decreases r @*/
        {
            let new_r = y % r;
            y = r;
            r = new_r;
        }
        if r == 0 {
            numerator /= y;
            denominator /= y;
        }
    }

    Self(Repr {
        numerator: IBig::from_parts_const(sign, numerator),
        denominator: UBig::from_dword(denominator),
    })
}
