//@ item: rational/src/rbig.rs :: impl Relaxed :: from_parts_const
// must_panic reading (rule D4): a zero denominator panics whatever the numerator is (C16); the value-level contract lives
// in contracts/annot/rational/ctor/relaxed_from_parts_const.rs.
pub const fn from_parts_const(
    sign: Sign,
    numerator: DoubleWord,
    denominator: DoubleWord,
) -> Self
/*@[must_panic]
    requires denominator == 0,
    ensures false, @*/
{
    if denominator == 0 {
        panic_divide_by_0()
    } else if numerator == 0 {
        return Self::ZERO;
    }

    let n2 = numerator.trailing_zeros();
    let d2 = denominator.trailing_zeros();
    let zeros = if n2 <= d2 { n2 } else { d2 };
    Self(Repr {
        numerator: IBig::from_parts_const(sign, numerator >> zeros),
        denominator: UBig::from_dword(denominator >> zeros),
    })
}
