//@ item: rational/src/mul.rs :: impl Relaxed :: cubic
pub fn cubic(&self) -> Self
/*@ ensures ret.0.numerator.v() == rpow(self.0.numerator.v(), 3), ret.0.denominator.v() == rpow(self.0.denominator.v(), 3),
        self.0.denominator.v() >= 1 ==> ret.0.denominator.v() >= 1, @*/
{
    Self(self.0.cubic())
}
