//@ item: rational/src/mul.rs :: impl Relaxed :: sqr
pub fn sqr(&self) -> Self
/*@ ensures ret.0.numerator.v() == rpow(self.0.numerator.v(), 2), ret.0.denominator.v() == rpow(self.0.denominator.v(), 2),
        self.0.denominator.v() >= 1 ==> ret.0.denominator.v() >= 1, @*/
{
    Self(self.0.sqr())
}
