//@ item: rational/src/mul.rs :: impl RBig :: sqr
pub fn sqr(&self) -> Self
/*@ ensures ret.0.numerator.v() == rpow(self.0.numerator.v(), 2), ret.0.denominator.v() == rpow(self.0.denominator.v(), 2),
        self.0.denominator.v() >= 1 ==> ret.0.denominator.v() >= 1,
        wf_ratio(self.0.numerator.v(), self.0.denominator.v()) ==> wf_ratio(ret.0.numerator.v(), ret.0.denominator.v()), @*/
{
    Self(self.0.sqr())
}
