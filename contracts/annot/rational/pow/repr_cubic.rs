//@ item: rational/src/mul.rs :: impl Repr :: cubic
fn cubic(&self) -> Self
/*@ ensures ret.numerator.v() == rpow(self.numerator.v(), 3), ret.denominator.v() == rpow(self.denominator.v(), 3),
        self.denominator.v() >= 1 ==> ret.denominator.v() >= 1,
        wf_ratio(self.numerator.v(), self.denominator.v()) ==> wf_ratio(ret.numerator.v(), ret.denominator.v()), @*/
{
    /*@ proof {
        lemma_rpow_small(self.numerator.v()); lemma_rpow_small(self.denominator.v());
        if self.denominator.v() >= 1 { lemma_rpow_pos(self.denominator.v(), 3); }
        if wf_ratio(self.numerator.v(), self.denominator.v()) { lemma_pow_canonical(self.numerator.v(), self.denominator.v(), 3); }
    } @*/
    Self {
        numerator: self.numerator.cubic(),
        denominator: self.denominator.cubic(),
    }
}
