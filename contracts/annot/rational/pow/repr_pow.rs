//@ item: rational/src/mul.rs :: impl Repr :: pow
fn pow(&self, n: usize) -> Self
/*@ ensures ret.numerator.v() == rpow(self.numerator.v(), n as nat), ret.denominator.v() == rpow(self.denominator.v(), n as nat),
        self.denominator.v() >= 1 ==> ret.denominator.v() >= 1,
        wf_ratio(self.numerator.v(), self.denominator.v()) ==> wf_ratio(ret.numerator.v(), ret.denominator.v()), @*/
{
    /*@ proof {
        if self.denominator.v() >= 1 { lemma_rpow_pos(self.denominator.v(), n as nat); }
        if wf_ratio(self.numerator.v(), self.denominator.v()) { lemma_pow_canonical(self.numerator.v(), self.denominator.v(), n as nat); }
    } @*/
    Self {
        numerator: self.numerator.pow(n),
        denominator: self.denominator.pow(n),
    }
}
