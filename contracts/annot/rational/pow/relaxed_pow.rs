//@ item: rational/src/mul.rs :: impl Relaxed :: pow
pub fn pow(&self, n: usize) -> Self
/*@ ensures ret.0.numerator.v() == rpow(self.0.numerator.v(), n as nat), ret.0.denominator.v() == rpow(self.0.denominator.v(), n as nat),
        self.0.denominator.v() >= 1 ==> ret.0.denominator.v() >= 1, @*/
{
    Self(self.0.pow(n))
}
