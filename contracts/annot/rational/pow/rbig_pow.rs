//@ item: rational/src/mul.rs :: impl RBig :: pow
pub fn pow(&self, n: usize) -> Self
/*@ ensures ret.0.numerator.v() == rpow(self.0.numerator.v(), n as nat), ret.0.denominator.v() == rpow(self.0.denominator.v(), n as nat),
        self.0.denominator.v() >= 1 ==> ret.0.denominator.v() >= 1,
        wf_ratio(self.0.numerator.v(), self.0.denominator.v()) ==> wf_ratio(ret.0.numerator.v(), ret.0.denominator.v()), @*/
{
    Self(self.0.pow(n))
}
