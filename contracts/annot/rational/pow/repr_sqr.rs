//@ item: rational/src/mul.rs :: impl Repr :: sqr
fn sqr(&self) -> Self
/*@ ensures ret.numerator.v() == rpow(self.numerator.v(), 2), ret.denominator.v() == rpow(self.denominator.v(), 2),
        self.denominator.v() >= 1 ==> ret.denominator.v() >= 1,
        wf_ratio(self.numerator.v(), self.denominator.v()) ==> wf_ratio(ret.numerator.v(), ret.denominator.v()), @*/
{
    /*@ proof {
        lemma_rpow_small(self.numerator.v()); lemma_rpow_small(self.denominator.v());
        if self.denominator.v() >= 1 { lemma_rpow_pos(self.denominator.v(), 2); }
        if wf_ratio(self.numerator.v(), self.denominator.v()) { lemma_pow_canonical(self.numerator.v(), self.denominator.v(), 2); }
    } @*/
    Self {
        numerator: self.numerator.sqr().into(),
        denominator: self.denominator.sqr(),
    }
}
