//@ item: rational/src/rbig.rs :: impl Relaxed :: from_parts_const
pub const fn from_parts_const(
    sign: Sign,
    numerator: DoubleWord,
    denominator: DoubleWord,
) -> Self
/*@ requires denominator != 0,   // documented: a zero denominator panics
    ensures ret.0.numerator.v() * (denominator as int) == (sgn(sign) * (numerator as int)) * ret.0.denominator.v(),
        ret.0.denominator.v() >= 1, @*/
{
    if denominator == 0 {
        panic_divide_by_0()
    } else if numerator == 0 {
        return Self::ZERO;
    }

    let n2 = numerator.trailing_zeros();
    let d2 = denominator.trailing_zeros();
    let zeros = if n2 <= d2 { n2 } else { d2 };
    /*@ proof {
        let (n0, d0, z, s) = (numerator as int, denominator as int, zeros as int, sgn(sign));
        lemma_reduce2(n0, d0, n2 as int, d2 as int, z);
        lemma_shr128_is_div(numerator, zeros);
        lemma_shr128_is_div(denominator, zeros);
        let (n1, d1) = ((numerator >> zeros) as int, (denominator >> zeros) as int);
        assert((s * n1) * d0 == (s * n0) * d1) by (nonlinear_arith) requires n1 * d0 == n0 * d1;
    } @*/
    Self(Repr {
        numerator: IBig::from_parts_const(sign, numerator >> zeros),
        denominator: UBig::from_dword(denominator >> zeros),
    })
}
