//@ item: rational/src/rbig.rs :: impl RBig :: from_parts_const
pub const fn from_parts_const(
    sign: Sign,
    mut numerator: DoubleWord,
    mut denominator: DoubleWord,
) -> Self
/*@ requires denominator != 0,   // documented: a zero denominator panics
    ensures ret.0.numerator.v() * (denominator as int) == (sgn(sign) * (numerator as int)) * ret.0.denominator.v(),
        wf_ratio(ret.0.numerator.v(), ret.0.denominator.v()), @*/
{
    /*@ let ghost n0 = numerator as int; let ghost d0 = denominator as int; @*/
    if denominator == 0 {
        panic_divide_by_0()
    } else if numerator == 0 {
        /*@ proof { lemma_wf_zero(); } @*/
        return Self::ZERO;
    }

    /*@ proof { lemma_gcd_with_one(n0); lemma_gcd_with_one(d0); } @*/
    if numerator > 1 && denominator > 1 {
        // perform a naive but const gcd
        let (mut y, mut r) = (denominator, numerator % denominator);
        /*@ proof { lemma_same_cd_init(n0, d0); } @*/
        while r > 1
        /*@ invariant y > 0, r < y, same_cd(y as int, r as int, n0, d0), n0 > 1, d0 > 1,
            decreases r @*/
        {
            let new_r = y % r;
            /*@ proof { lemma_same_cd_step(y as int, r as int, n0, d0); } @*/
            y = r;
            r = new_r;
        }
        /*@ proof { lemma_same_cd_exit(y as int, r as int, n0, d0); } @*/
        if r == 0 {
            /*@ proof {
                lemma_exact_div(n0, y as int); lemma_exact_div(d0, y as int);
                lemma_gcd_quot_coprime(y as int, n0, d0, n0 / (y as int), d0 / (y as int));
                let (n1, d1, g) = (n0 / (y as int), d0 / (y as int), y as int);
                assert(n1 * d0 == n0 * d1) by (nonlinear_arith) requires n0 == n1 * g, d0 == d1 * g;
            } @*/
            numerator /= y;
            denominator /= y;
        }
    }
    /*@ proof {
        let (n1, d1, s) = (numerator as int, denominator as int, sgn(sign));
        assert(is_gcd(1, n1, d1) && d1 >= 1 && n1 >= 1 && n1 * d0 == n0 * d1);
        assert(rabs(s * n1) == n1 && s * n1 != 0) by (nonlinear_arith) requires s == 1 || s == -1, n1 >= 1;
        assert((s * n1) * d0 == (s * n0) * d1) by (nonlinear_arith) requires n1 * d0 == n0 * d1;
    } @*/

    Self(Repr {
        numerator: IBig::from_parts_const(sign, numerator),
        denominator: UBig::from_dword(denominator),
    })
}
