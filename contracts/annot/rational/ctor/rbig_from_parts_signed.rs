//@ item: rational/src/rbig.rs :: impl RBig :: from_parts_signed
pub fn from_parts_signed(numerator: IBig, denominator: IBig) -> Self
/*@ requires denominator.v() != 0,   // documented: a zero denominator panics
    ensures ret.0.numerator.v() * denominator.v() == numerator.v() * ret.0.denominator.v(),
        wf_ratio(ret.0.numerator.v(), ret.0.denominator.v()), @*/
{
    let (sign, mag) = denominator.into_parts();
    /*@ let ghost s = sgn(sign); let ghost m = mag.v(); @*/
    Self::from_parts(numerator * sign, mag)
    /*@ proof {
        let (rn, rd, n) = (ret.0.numerator.v(), ret.0.denominator.v(), numerator.v());
        assert(denominator.v() == s * m) by (nonlinear_arith) requires (s == 1 && m == denominator.v()) || (s == -1 && m == -denominator.v());
        assert(rn * (s * m) == n * rd) by (nonlinear_arith) requires rn * m == (n * s) * rd, s == 1 || s == -1;
    } @*/
}
