//@ item: rational/src/cmp.rs :: macro forward_abs_ord_to_repr#0 :: impl AbsOrd<$T> for $R :: abs_cmp
fn abs_cmp(&self, other: &$T) -> Ordering
/*@[RBig] #[hoist(Self = RBig, Name = r_abs_cmp_t)] @*/
/*@[Relaxed] #[hoist(Self = Relaxed, Name = r_abs_cmp_t)] @*/
/*@
    requires self.0.ac_req(other),
    ensures // RBig / Relaxed compare as the fraction they hold: ac_spec is the C14 (AbsOrd) sentence for (Repr, $T)
        ret == self.0.ac_spec(other),
@*/
{
                self.0.abs_cmp(other)
            }
