//@ item: rational/src/cmp.rs :: repr_cmp_ubig
pub(crate) fn repr_cmp_ubig<const ABS: bool>(lhs: &Repr, rhs: &UBig) -> Ordering
/*@
    requires lhs.denominator.v() >= 1,
    ensures // C14: the ordering of the exact values n/d and x (of the magnitudes through AbsOrd)
        ret == cmp_ratio_int(lhs.numerator.v(), lhs.denominator.v(), rhs.v(), ABS),
@*/
{
    /*@
    let ghost n = lhs.numerator.v(); let ghost d = lhs.denominator.v(); let ghost x = rhs.v();
    proof { lemma_ri_sign(x, d); }
    @*/
    // case 1: compare sign
    if !ABS && lhs.numerator.sign() == Sign::Negative {
        return Ordering::Less;
    }

    // case 2: compare log2 estimations
    let (lhs_lo, lhs_hi) = lhs.log2_bounds();
    let (rhs_lo, rhs_hi) = rhs.log2_bounds();
    if lhs_lo > rhs_hi {
        /*@ proof {
            ax_est_gt(lhs_lo, rhs_hi, rabs(n), d, x, 1);
            lemma_ri_filter(n, d, x, ABS, true);
        } @*/
        return Ordering::Greater;
    }
    if lhs_hi < rhs_lo {
        /*@ proof {
            ax_est_lt(lhs_hi, rhs_lo, rabs(n), d, x, 1);
            lemma_ri_filter(n, d, x, ABS, false);
        } @*/
        return Ordering::Less;
    }

    // case 3: compare the exact values
    lhs.numerator.abs_cmp(&(rhs * &lhs.denominator))
}
