//@ item: rational/src/third_party/num_order.rs :: macro impl_num_ord_with_unsigned#0 :: impl NumOrd<$t> for Repr :: num_cmp
fn num_cmp(&self, other: &$t) -> Ordering
/*@ #[hoist(Self = Repr, Name = repr_num_cmp_prim)]
    requires self.denominator.v() >= 1,
    ensures // C14: the ordering of the exact values n/d and x
        ret == cmp_ratio_int(self.numerator.v(), self.denominator.v(), *other as int, false),
@*/
{
                repr_cmp_ubig::<false>(self, &UBig::from(*other))
            }
