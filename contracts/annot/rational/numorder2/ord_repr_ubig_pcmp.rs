//@ item: rational/src/third_party/num_order.rs :: impl NumOrd<UBig> for Repr :: num_partial_cmp
fn num_partial_cmp(&self, other: &UBig) -> Option<Ordering>
/*@ #[hoist(Self = Repr, Name = repr_num_partial_cmp_ubig)]
    requires self.denominator.v() >= 1,
    ensures // C14: the ordering of the exact values n/d and x
        ret == Some(cmp_ratio_int(self.numerator.v(), self.denominator.v(), other.v(), false)),
@*/
{
        Some(repr_cmp_ubig::<false>(self, other))
    }
