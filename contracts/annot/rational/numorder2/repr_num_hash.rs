//@ item: rational/src/third_party/num_order.rs :: impl NumHash for Repr :: num_hash
fn num_hash<H: core::hash::Hasher>(&self, state: &mut H)
/*@ #[hoist(Self = Repr, Name = repr_num_hash)]
    requires self.denominator.v() >= 1,
    ensures
        // C14: what is fed to the hasher is num-order's hash of the rational number n/d
        ratio_hash_ok(self.numerator.v(), self.denominator.v(), fed(*old(state), *final(state))),
@*/
{
        /*@
        let ghost n = self.numerator.v(); let ghost d = self.denominator.v(); let ghost a = rabs(n);
        proof { lemma_mod_abs_t(n); vstd::arithmetic::div_mod::lemma_mod_bound(d, m127()); }
        @*/
        // 2^127 - 1 is used in the num-order crate
        type MInt = FixedMersenneInt<127, 1>;
        const M127: i128 = i128::MAX;
        const M127U: u128 = M127 as u128;
        const HASH_INF: i128 = i128::MAX;
        const HASH_NEGINF: i128 = i128::MIN + 1;

        let ub = (&self.denominator) % M127U; // denom is always positive in Ratio
        let binv = if ub != 0 {
            /*@ proof { vstd::arithmetic::div_mod::lemma_small_mod(ub as nat, m127() as nat); } @*/
            MInt::new(ub, &M127U).inv().unwrap()
        } else {
            // no modular inverse, use INF or NEGINF as the result
            return if self.numerator.is_positive() {
                HASH_INF.num_hash(state)
            } else {
                HASH_NEGINF.num_hash(state)
            };
        };

        let ua = (&self.numerator) % M127;
        /*@ let ghost ua0 = ua as int; @*/
        let ua = binv.convert(ua.unsigned_abs());
        let ab = (ua * binv).residue() as i128;
        /*@ proof {
            ax_mint_range(ua); ax_mint_range(binv);
            vstd::arithmetic::div_mod::lemma_mod_twice(a, m127());
            assert(ua.r() == a % m127());
            vstd::arithmetic::div_mod::lemma_mod_bound(ua.r() * binv.r(), m127());
            lemma_inv_back(a, binv.r(), d, ab as int);
        } @*/
        (self.numerator.sign() * ab).num_hash(state)
    }
