//@ item: rational/src/cmp.rs :: impl AbsOrd<UBig> for Repr :: abs_cmp
fn abs_cmp(&self, other: &UBig) -> Ordering
/*@ #[hoist(Self = Repr, Name = repr_abs_cmp_ubig)]
    requires self.denominator.v() >= 1,
    ensures // C14 (AbsOrd): the ordering of the magnitudes |n|/d and |x|
        ret == cmp_ratio_int(self.numerator.v(), self.denominator.v(), other.v(), true),
@*/
{
        repr_cmp_ubig::<true>(self, other)
    }
