//@ item: rational/src/third_party/num_order.rs :: macro impl_num_ord_with_float#0 :: impl NumOrd<$t> for Repr :: num_partial_cmp
fn num_partial_cmp(&self, other: &$t) -> Option<Ordering>
/*@ #[hoist(Self = Repr, Name = repr_cmp_prim_float)] @*/
/*@[f32]
    requires self.denominator.v() >= 1,
    ensures // C14: the ordering of the exact real values; NaN is incomparable
        ret == cmp_ratio_prim(self.numerator.v(), self.denominator.v(),
            f32_nan(*other), f32_inf(*other), f32_neg(*other), f32_man(*other), f32_exp(*other)),
@*/
/*@[f64]
    requires self.denominator.v() >= 1,
    ensures // C14: the ordering of the exact real values; NaN is incomparable
        ret == cmp_ratio_prim(self.numerator.v(), self.denominator.v(),
            f64_nan(*other), f64_inf(*other), f64_neg(*other), f64_man(*other), f64_exp(*other)),
@*/
{
                /*@[f32]
                let ghost m = f32_man(*other); let ghost ex = f32_exp(*other);
                let ghost digits = 24int; let ghost maxe = 128int;
                proof { ax_f32_model(*other); }
                @*/
                /*@[f64]
                let ghost m = f64_man(*other); let ghost ex = f64_exp(*other);
                let ghost digits = 53int; let ghost maxe = 1024int;
                proof { ax_f64_model(*other); }
                @*/
                /*@
                let ghost n = self.numerator.v(); let ghost d = self.denominator.v();
                let ghost nb = blen(rabs(n)); let ghost db = blen(d); let ghost mb = blen(rabs(m));
                proof {
                    ax_blen(rabs(n)); ax_blen(d); ax_blen(rabs(m));
                    lemma_tntd_pos(ex);
                    vstd::arithmetic::power2::lemma2_to64();
                    lemma_scale_sign(n, td(ex));
                    lemma_scale_sign(m, d); lemma_scale_sign(m * d, tn(ex));
                }
                @*/
                // step 1: compare with nan/inf/0
                if other.is_nan() {
                    return None;
                } else if other.is_infinite() {
                    return match other.sign() {
                        Sign::Positive => Some(Ordering::Less),
                        Sign::Negative => Some(Ordering::Greater),
                    };
                } else if *other == 0. {
                    /*@[f32] proof { ax_f32_eq_zero(*other, true); } @*/
                    /*@[f64] proof { ax_f64_eq_zero(*other, true); } @*/
                    /*@ proof { assert((0 * d) * tn(ex) == 0) by (nonlinear_arith); } @*/
                    return match self.numerator.is_zero() {
                        true => Some(Ordering::Equal),
                        false => Some(self.numerator.sign() * Ordering::Greater)
                    };
                }
                /*@[f32] proof { ax_f32_eq_zero(*other, false); } @*/
                /*@[f64] proof { ax_f64_eq_zero(*other, false); } @*/

                // step 2: compare sign
                let sign = match (self.numerator.sign(), other.sign()) {
                    (Sign::Positive, Sign::Positive) => Sign::Positive,
                    (Sign::Positive, Sign::Negative) => return Some(Ordering::Greater),
                    (Sign::Negative, Sign::Positive) => return Some(Ordering::Less),
                    (Sign::Negative, Sign::Negative) => Sign::Negative,
                };
                /*@ proof {
                    if n == 0 { assert(0 * td(ex) == 0) by (nonlinear_arith); }
                } @*/
                if self.numerator.is_zero() {
                    // other is non-zero and has the sign of zero (positive)
                    return Some(Ordering::Less);
                }

                // step 3: test if the number is bigger than the max float value
                // Here we don't use EstimatedLog2, since a direct comparison is not that expensive.
                // We just need a quick way to determine if one number is much larger than the other.
                // The bit length (essentially ⌊log2(x)⌋ + 1) is used instead here.
                let self_log2 = self.numerator.bit_len() as isize - self.denominator.bit_len() as isize;
                let (self_log2_lb, self_log2_ub) = (self_log2 - 1, self_log2 + 1);
                /*@
                let ghost lb = self_log2_lb as int; let ghost ub = self_log2_ub as int;
                let ghost neg = sign == Sign::Negative;
                proof {
                    // 2^lb <= |self| (self != 0),  |self| < 2^ub;   2^(mb+ex-1) <= |other| < 2^(mb+ex),  mb + ex <= MAX_EXP
                    assert(m != 0);
                    lemma_blen_le(rabs(m), digits as nat);
                    lemma_prim_encl(m, mb, ex);
                    lemma_fp_swap(rabs(m), tn(ex), d);
                    assert(rabs(n) * 1 == rabs(n) && n * 1 == n);
                    {
                        lemma_frac_ge(rabs(n), d, (nb - 1) as nat, db as nat);
                        lemma_frac_lt(rabs(n), d, nb as nat, (db - 1) as nat);
                        if lb >= mb + ex {
                            lemma_chain_gt(rabs(n), d, rabs(m) * tn(ex), td(ex), lb, mb + ex);
                            lemma_fp_decide(n, 1, td(ex), m, d, tn(ex), neg, true);
                        }
                        if ub <= mb + ex - 1 {
                            lemma_chain_lt(rabs(n), d, rabs(m) * tn(ex), td(ex), ub, mb + ex - 1);
                            lemma_fp_decide(n, 1, td(ex), m, d, tn(ex), neg, false);
                        }
                    }
                } @*/
                if self_log2_lb > (<$t>::MANTISSA_DIGITS as isize + <$t>::MAX_EXP as isize) {
                    return Some(sign * Ordering::Greater);
                }

                // step 4: decode the float and compare the bits
                let (other_man, other_exp) = other.decode().unwrap();
                let other_log2 = other_man.bit_len() as isize + other_exp as isize - 1;
                if self_log2_lb > other_log2 {
                    return Some(sign * Ordering::Greater);
                } else if self_log2_ub < other_log2 {
                    return Some(sign * Ordering::Less);
                }

                // step 5: compare the exact values
                let (other_man, other_exp) = other.decode().unwrap();
                let (mut lhs, mut rhs) = (self.numerator.clone(), IBig::from(other_man) * &self.denominator);
                if other_exp < 0 {
                    lhs <<= -other_exp as usize;
                } else {
                    rhs <<= other_exp as usize;
                }

                Some(lhs.cmp(&rhs))
            }
