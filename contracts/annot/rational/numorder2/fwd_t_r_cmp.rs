//@ item: rational/src/third_party/num_order.rs :: macro forward_num_ord_to_repr#0 :: impl NumOrd<$R> for $T :: num_cmp
fn num_cmp(&self, other: &$R) -> Ordering
/*@[UBig] #[hoist(Self = UBig, Name = t_num_cmp_r)] @*/
/*@[IBig] #[hoist(Self = IBig, Name = t_num_cmp_r)] @*/
/*@[f32] #[hoist(Self = f32, Name = t_num_cmp_r)] @*/
/*@[f64] #[hoist(Self = f64, Name = t_num_cmp_r)] @*/
/*@[u64] #[hoist(Self = u64, Name = t_num_cmp_r)] @*/
/*@[i64] #[hoist(Self = i64, Name = t_num_cmp_r)] @*/
/*@
    requires other.0.npc_req(self), other.0.npc_spec(self).is_some(),
    ensures // the mirrored comparison: the reverse of the C14 sentence for (Repr, $T)
        Some(ret) == opt_rev(other.0.npc_spec(self)),
@*/
{
                other.0.num_cmp(self).reverse()
            }
