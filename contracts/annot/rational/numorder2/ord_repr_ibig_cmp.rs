//@ item: rational/src/third_party/num_order.rs :: impl NumOrd<IBig> for Repr :: num_cmp
fn num_cmp(&self, other: &IBig) -> Ordering
/*@ #[hoist(Self = Repr, Name = repr_num_cmp_ibig)]
    requires self.denominator.v() >= 1,
    ensures // C14: the ordering of the exact values n/d and x
        ret == cmp_ratio_int(self.numerator.v(), self.denominator.v(), other.v(), false),
@*/
{
        repr_cmp_ibig::<false>(self, other)
    }
