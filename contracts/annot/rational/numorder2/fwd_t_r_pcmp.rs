//@ item: rational/src/third_party/num_order.rs :: macro forward_num_ord_to_repr#0 :: impl NumOrd<$R> for $T :: num_partial_cmp
fn num_partial_cmp(&self, other: &$R) -> Option<Ordering>
/*@[UBig] #[hoist(Self = UBig, Name = t_num_partial_cmp_r)] @*/
/*@[IBig] #[hoist(Self = IBig, Name = t_num_partial_cmp_r)] @*/
/*@[f32] #[hoist(Self = f32, Name = t_num_partial_cmp_r)] @*/
/*@[f64] #[hoist(Self = f64, Name = t_num_partial_cmp_r)] @*/
/*@[u64] #[hoist(Self = u64, Name = t_num_partial_cmp_r)] @*/
/*@[i64] #[hoist(Self = i64, Name = t_num_partial_cmp_r)] @*/
/*@
    requires other.0.npc_req(self),
    ensures // the mirrored comparison: the reverse of the C14 sentence for (Repr, $T); None stays None
        ret == opt_rev(other.0.npc_spec(self)),
@*/
{
                other.0.num_partial_cmp(self).map(|ord| /*@ -> (r: Ordering) ensures r == ord_rev(ord) @*/ ord.reverse())
            }
