//@ item: rational/src/cmp.rs :: repr_cmp_ibig
pub(crate) fn repr_cmp_ibig<const ABS: bool>(lhs: &Repr, rhs: &IBig) -> Ordering
/*@
    requires lhs.denominator.v() >= 1,
    ensures // C14: the ordering of the exact values n/d and x (of the magnitudes through AbsOrd)
        ret == cmp_ratio_int(lhs.numerator.v(), lhs.denominator.v(), rhs.v(), ABS),
@*/
{
    /*@
    let ghost n = lhs.numerator.v(); let ghost d = lhs.denominator.v(); let ghost x = rhs.v();
    proof { lemma_ri_sign(x, d); }
    @*/
    // case 1: compare sign
    let sign = if ABS {
        Sign::Positive
    } else {
        match (lhs.numerator.sign(), rhs.sign()) {
            (Sign::Positive, Sign::Positive) => Sign::Positive,
            (Sign::Positive, Sign::Negative) => return Ordering::Greater,
            (Sign::Negative, Sign::Positive) => return Ordering::Less,
            (Sign::Negative, Sign::Negative) => Sign::Negative,
        }
    };

    // case 2: compare log2 estimations
    let (lhs_lo, lhs_hi) = lhs.log2_bounds();
    let (rhs_lo, rhs_hi) = rhs.log2_bounds();
    if lhs_lo > rhs_hi {
        /*@ proof {
            ax_est_gt(lhs_lo, rhs_hi, rabs(n), d, rabs(x), 1);
            lemma_ri_filter(n, d, x, ABS, true);
        } @*/
        return sign * Ordering::Greater;
    }
    if lhs_hi < rhs_lo {
        /*@ proof {
            ax_est_lt(lhs_hi, rhs_lo, rabs(n), d, rabs(x), 1);
            lemma_ri_filter(n, d, x, ABS, false);
        } @*/
        return sign * Ordering::Less;
    }

    // case 3: compare the exact values
    if ABS {
        lhs.numerator.abs_cmp(&(rhs * &lhs.denominator))
    } else {
        lhs.numerator.cmp(&(rhs * &lhs.denominator))
    }
}
