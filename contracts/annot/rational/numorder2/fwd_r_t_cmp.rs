//@ item: rational/src/third_party/num_order.rs :: macro forward_num_ord_to_repr#0 :: impl NumOrd<$T> for $R :: num_cmp
fn num_cmp(&self, other: &$T) -> Ordering
/*@[RBig] #[hoist(Self = RBig, Name = r_num_cmp_t)] @*/
/*@[Relaxed] #[hoist(Self = Relaxed, Name = r_num_cmp_t)] @*/
/*@
    requires self.0.npc_req(other), self.0.npc_spec(other).is_some(),
    ensures // RBig / Relaxed compare as the fraction they hold: npc_spec is the C14 sentence for (Repr, $T)
        Some(ret) == self.0.npc_spec(other),
@*/
{
                self.0.num_cmp(other)
            }
