//@ item: rational/src/cmp.rs :: macro forward_abs_ord_to_repr#0 :: impl AbsOrd<$R> for $T :: abs_cmp
fn abs_cmp(&self, other: &$R) -> Ordering
/*@[UBig] #[hoist(Self = UBig, Name = t_abs_cmp_r)] @*/
/*@[IBig] #[hoist(Self = IBig, Name = t_abs_cmp_r)] @*/
/*@
    requires other.0.ac_req(self),
    ensures // the mirrored comparison of the magnitudes
        ret == ord_rev(other.0.ac_spec(self)),
@*/
{
                other.0.abs_cmp(self).reverse()
            }
