//@ item: rational/src/cmp.rs :: impl AbsOrd<IBig> for Repr :: abs_cmp
fn abs_cmp(&self, other: &IBig) -> Ordering
/*@ #[hoist(Self = Repr, Name = repr_abs_cmp_ibig)]
    requires self.denominator.v() >= 1,
    ensures // C14 (AbsOrd): the ordering of the magnitudes |n|/d and |x|
        ret == cmp_ratio_int(self.numerator.v(), self.denominator.v(), other.v(), true),
@*/
{
        repr_cmp_ibig::<true>(self, other)
    }
