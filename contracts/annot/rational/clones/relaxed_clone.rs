//@ item: rational/src/rbig.rs :: impl Clone for Relaxed :: clone
fn clone(&self) -> Relaxed
/*@
    ensures
        cl_ratio_copy(self.0, ret.0),
@*/
{
        Relaxed(self.0.clone())
    }
