//@ item: rational/src/rbig.rs :: impl Clone for RBig :: clone_from
fn clone_from(&mut self, source: &RBig)
/*@
    ensures
        cl_ratio_copy(source.0, final(self).0),
@*/
{
        self.0.clone_from(&source.0)
    }
