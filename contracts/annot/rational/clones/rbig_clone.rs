//@ item: rational/src/rbig.rs :: impl Clone for RBig :: clone
fn clone(&self) -> RBig
/*@
    ensures
        cl_ratio_copy(self.0, ret.0),
@*/
{
        RBig(self.0.clone())
    }
