//@ item: rational/src/repr.rs :: impl Clone for Repr :: clone
fn clone(&self) -> Self
/*@
    ensures
        // C05 / C15: a clone has the numerator and the denominator of its source
        cl_ratio_copy(*self, ret),
@*/
{
        Self {
            numerator: self.numerator.clone(),
            denominator: self.denominator.clone(),
        }
    }
