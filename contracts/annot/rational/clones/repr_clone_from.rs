//@ item: rational/src/repr.rs :: impl Clone for Repr :: clone_from
fn clone_from(&mut self, source: &Self)
/*@
    ensures
        // C15: whatever the destination held, it is left indistinguishable from `source.clone()`
        cl_ratio_copy(*source, *final(self)),
@*/
{
        self.numerator.clone_from(&source.numerator);
        self.denominator.clone_from(&source.denominator);
    }
