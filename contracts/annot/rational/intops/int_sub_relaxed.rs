//@ item: rational/src/add.rs :: macro impl_int_sub_relaxed#0 :: @arm
/*@ requires b.v() > 0, ra.v() == a.v(), rb.v() == b.v(), ri.v() == i.v(), @*/
/*@ ensures ret.0.numerator.v() * b.v() == (i.v() * b.v() - a.v()) * ret.0.denominator.v(),
        ret.0.denominator.v() >= 1, @*/
{
        let _unused = ($ra, $ri);
        /*@ proof { assert(b.v() * i.v() == i.v() * b.v()) by (nonlinear_arith); } @*/
        Relaxed(Repr {
            numerator: ($rb * $i).$method($a),
            denominator: $b,
        })
}
