//@ item: rational/src/add.rs :: macro impl_int_sub_rbig#0 :: @arm
/*@ requires b.v() > 0, ra.v() == a.v(), rb.v() == b.v(), ri.v() == i.v(), @*/
/*@ ensures ret.0.numerator.v() * b.v() == (i.v() * b.v() - a.v()) * ret.0.denominator.v(),
        ret.0.denominator.v() >= 1, wf_ratio(a.v(), b.v()) ==> wf_ratio(ret.0.numerator.v(), ret.0.denominator.v()), @*/
{
        let _unused = ($ra, $ri);
        /*@ proof {
            assert(b.v() * i.v() == i.v() * b.v()) by (nonlinear_arith);
            assert(b.v() * (-i.v()) == -(b.v() * i.v())) by (nonlinear_arith);
            if wf_ratio(a.v(), b.v()) {
                lemma_addint_canonical(a.v(), b.v(), -i.v());
                lemma_wf_sign(a.v() + b.v() * (-i.v()), b.v(), -1);
            }
        } @*/
        RBig(Repr {
            numerator: ($rb * $i).$method($a),
            denominator: $b,
        })
}
