//@ item: rational/src/div.rs :: macro impl_relaxed_div_ubig#0 :: @arm
/*@ requires b.v() > 0, i.v() != 0,   // documented: division by zero panics
        ra.v() == a.v(), rb.v() == b.v(), ri.v() == i.v(), @*/
/*@ ensures ret.0.numerator.v() * (b.v() * i.v()) == a.v() * ret.0.denominator.v(),
        ret.0.denominator.v() >= 1, @*/
{
        if $ri.is_zero() {
            panic_divide_by_0()
        }

        let _unused = ($ra, $rb);
        /*@ proof {
            assert(b.v() * i.v() >= 1) by (nonlinear_arith) requires b.v() >= 1, i.v() >= 1;
        } @*/
        Relaxed::from_parts($a, $b * $i)
}
