//@ item: rational/src/add.rs :: macro impl_addsub_int_with_relaxed#0 :: @arm
/*@ requires b.v() > 0, ra.v() == a.v(), rb.v() == b.v(), ri.v() == i.v(), @*/
/*@[add] ensures ret.0.numerator.v() * b.v() == (a.v() + i.v() * b.v()) * ret.0.denominator.v(),
        ret.0.denominator.v() >= 1, @*/
/*@[sub] ensures ret.0.numerator.v() * b.v() == (a.v() - i.v() * b.v()) * ret.0.denominator.v(),
        ret.0.denominator.v() >= 1, @*/
{
        let _unused = ($ra, $ri);
        /*@ proof { assert(b.v() * i.v() == i.v() * b.v()) by (nonlinear_arith); } @*/
        Relaxed(Repr {
            numerator: $a.$method($rb * $i),
            denominator: $b,
        })
}
