//@ item: rational/src/mul.rs :: macro impl_mul_int_with_relaxed#0 :: @arm
/*@ requires b.v() > 0, ra.v() == a.v(), rb.v() == b.v(), ri.v() == i.v(), @*/
/*@ ensures ret.0.numerator.v() * b.v() == (a.v() * i.v()) * ret.0.denominator.v(),
        ret.0.denominator.v() >= 1, @*/
{
        let _unused = ($ra, $rb, $ri);
        Relaxed::from_parts($a.$method($i), $b)
}
