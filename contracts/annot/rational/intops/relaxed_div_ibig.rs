//@ item: rational/src/div.rs :: macro impl_relaxed_div_ibig#0 :: @arm
/*@ requires b.v() > 0, i.v() != 0,   // documented: division by zero panics
        ra.v() == a.v(), rb.v() == b.v(), ri.v() == i.v(), @*/
/*@ ensures ret.0.numerator.v() * (b.v() * i.v()) == a.v() * ret.0.denominator.v(),
        ret.0.denominator.v() >= 1, @*/
{
        if $ri.is_zero() {
            panic_divide_by_0()
        }

        let _unused = ($ra, $rb);
        /*@ proof {
            assert(b.v() * rabs(i.v()) >= 1) by (nonlinear_arith) requires b.v() >= 1, rabs(i.v()) >= 1;
        } @*/
        Relaxed::from_parts($a * $i.sign(), $b * $i.unsigned_abs())
        /*@ proof {
            let s: int = if i.v() < 0 { -1 } else { 1 };
            let iv = rabs(i.v()); let bi = b.v() * iv; let n = ret.0.numerator.v(); let m = ret.0.denominator.v();
            assert(b.v() * i.v() == s * bi) by (nonlinear_arith) requires bi == b.v() * iv, (s == 1 && iv == i.v()) || (s == -1 && iv == -i.v());
            assert(n * (s * bi) == a.v() * m) by (nonlinear_arith) requires n * bi == (a.v() * s) * m, s == 1 || s == -1;
        } @*/
}
