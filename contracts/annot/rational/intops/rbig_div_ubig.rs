//@ item: rational/src/div.rs :: macro impl_rbig_div_ubig#0 :: @arm
/*@ requires b.v() > 0, i.v() != 0,   // documented: division by zero panics
        ra.v() == a.v(), rb.v() == b.v(), ri.v() == i.v(), @*/
/*@ ensures ret.0.numerator.v() * (b.v() * i.v()) == a.v() * ret.0.denominator.v(),
        ret.0.denominator.v() >= 1, wf_ratio(a.v(), b.v()) ==> wf_ratio(ret.0.numerator.v(), ret.0.denominator.v()), @*/
{
        if $ri.is_zero() {
            panic_divide_by_0()
        }

        let _unused = $rb;
        let g = $ra.gcd($ri);
        /*@ proof {
            let gv = g.v();
            lemma_tdiv_exact(a.v(), gv); lemma_exact_div(i.v(), gv);
            let a1 = tdiv(a.v(), gv); let d1 = i.v() / gv;
            lemma_mul_value(a.v(), b.v(), 1, i.v(), gv, 1, a1, b.v(), 1, d1);
            assert(b.v() * d1 >= 1) by (nonlinear_arith) requires b.v() >= 1, d1 >= 1;
            if wf_ratio(a.v(), b.v()) {
                lemma_wf_unit_frac(i.v());
                lemma_wf_int(b.v());
                lemma_mul_canonical(a.v(), b.v(), 1, i.v(), gv, 1, a1, b.v(), 1, d1);
            }
        } @*/
        RBig(Repr {
            numerator: $a / &g,
            denominator: $b * ($i / g),
        })
}
