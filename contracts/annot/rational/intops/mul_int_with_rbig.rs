//@ item: rational/src/mul.rs :: macro impl_mul_int_with_rbig#0 :: @arm
/*@ requires b.v() > 0, ra.v() == a.v(), rb.v() == b.v(), ri.v() == i.v(), @*/
/*@ ensures ret.0.numerator.v() * b.v() == (a.v() * i.v()) * ret.0.denominator.v(),
        ret.0.denominator.v() >= 1, wf_ratio(a.v(), b.v()) ==> wf_ratio(ret.0.numerator.v(), ret.0.denominator.v()), @*/
{
        let _unused = ($ra, $rb, $ri);
        let g = $rb.gcd($ri);
        /*@ proof {
            let gv = g.v();
            lemma_tdiv_exact(i.v(), gv); lemma_exact_div(b.v(), gv);
            let c1 = tdiv(i.v(), gv); let b1 = b.v() / gv;
            assert(i.v() >= 0 ==> c1 == i.v() / gv);
            lemma_mul_value(a.v(), b.v(), i.v(), 1, 1, gv, a.v(), b1, c1, 1);
            if wf_ratio(a.v(), b.v()) {
                lemma_wf_int(i.v());
                lemma_wf_int(a.v());
                lemma_mul_canonical(a.v(), b.v(), i.v(), 1, 1, gv, a.v(), b1, c1, 1);
            }
        } @*/
        RBig(Repr {
            numerator: $a.$method($i / &g),
            denominator: $b / g,
        })
}
