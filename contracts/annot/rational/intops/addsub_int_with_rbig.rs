//@ item: rational/src/add.rs :: macro impl_addsub_int_with_rbig#0 :: @arm
/*@ requires b.v() > 0, ra.v() == a.v(), rb.v() == b.v(), ri.v() == i.v(), @*/
/*@[add] ensures ret.0.numerator.v() * b.v() == (a.v() + i.v() * b.v()) * ret.0.denominator.v(),
        ret.0.denominator.v() >= 1, wf_ratio(a.v(), b.v()) ==> wf_ratio(ret.0.numerator.v(), ret.0.denominator.v()), @*/
/*@[sub] ensures ret.0.numerator.v() * b.v() == (a.v() - i.v() * b.v()) * ret.0.denominator.v(),
        ret.0.denominator.v() >= 1, wf_ratio(a.v(), b.v()) ==> wf_ratio(ret.0.numerator.v(), ret.0.denominator.v()), @*/
{
        let _unused = ($ra, $ri);
        /*@[add] proof {
            assert(b.v() * i.v() == i.v() * b.v()) by (nonlinear_arith);
            if wf_ratio(a.v(), b.v()) { lemma_addint_canonical(a.v(), b.v(), i.v()); }
        } @*/
        /*@[sub] proof {
            assert(b.v() * i.v() == i.v() * b.v()) by (nonlinear_arith);
            assert(b.v() * (-i.v()) == -(b.v() * i.v())) by (nonlinear_arith);
            if wf_ratio(a.v(), b.v()) { lemma_addint_canonical(a.v(), b.v(), -i.v()); }
        } @*/
        RBig(Repr {
            numerator: $a.$method($rb * $i),
            denominator: $b,
        })
}
