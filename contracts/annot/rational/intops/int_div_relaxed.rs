//@ item: rational/src/div.rs :: macro impl_ubig_or_ibig_div_relaxed#0 :: @arm
/*@ requires b.v() > 0, a.v() != 0,   // documented: division by zero panics
        ra.v() == a.v(), rb.v() == b.v(), ri.v() == i.v(), @*/
/*@ ensures ret.0.numerator.v() * a.v() == (i.v() * b.v()) * ret.0.denominator.v(),
        ret.0.denominator.v() >= 1, @*/
{
        if $ra.is_zero() {
            panic_divide_by_0()
        }

        let _unused = ($ra, $rb, $ri);
        Relaxed::from_parts($b * $i * $a.sign(), $a.unsigned_abs())
        /*@ proof {
            let s: int = if a.v() < 0 { -1 } else { 1 };
            let av = rabs(a.v()); let n = ret.0.numerator.v(); let m = ret.0.denominator.v();
            let bi = b.v() * i.v();
            assert(bi == i.v() * b.v()) by (nonlinear_arith) requires bi == b.v() * i.v();
            assert(n * (s * av) == bi * m) by (nonlinear_arith) requires n * av == (bi * s) * m, s == 1 || s == -1;
        } @*/
}
