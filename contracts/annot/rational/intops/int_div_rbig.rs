//@ item: rational/src/div.rs :: macro impl_ubig_or_ibig_div_rbig#0 :: @arm
/*@ requires b.v() > 0, a.v() != 0,   // documented: division by zero panics
        ra.v() == a.v(), rb.v() == b.v(), ri.v() == i.v(), @*/
/*@ ensures ret.0.numerator.v() * a.v() == (i.v() * b.v()) * ret.0.denominator.v(),
        ret.0.denominator.v() >= 1, wf_ratio(a.v(), b.v()) ==> wf_ratio(ret.0.numerator.v(), ret.0.denominator.v()), @*/
{
        if $ra.is_zero() {
            panic_divide_by_0()
        }

        let _unused = $rb;
        let g = $ra.gcd($ri);
        /*@ proof {
            let gv = g.v(); let av = rabs(a.v());
            let s: int = if a.v() < 0 { -1 } else { 1 };
            lemma_tdiv_exact(i.v(), gv); lemma_exact_div(av, gv);
            let i1 = tdiv(i.v(), gv); let d1 = av / gv;
            assert(i.v() >= 0 ==> i1 == i.v() / gv);
            // (i/1) * (b/|a|): i == i1*g, |a| == d1*g
            lemma_mul_value(i.v(), 1, b.v(), av, gv, 1, i1, 1, b.v(), d1);
            let n0 = b.v() * i1;
            assert(n0 == i1 * b.v()) by (nonlinear_arith) requires n0 == b.v() * i1;
            let ib = i.v() * b.v();
            assert(a.v() == s * av) by (nonlinear_arith) requires (s == 1 && av == a.v()) || (s == -1 && av == -a.v());
            assert((n0 * s) * (s * av) == n0 * av) by (nonlinear_arith) requires s == 1 || s == -1;
            if wf_ratio(a.v(), b.v()) {
                lemma_wf_int(i.v());
                lemma_wf_int(b.v());
                lemma_gcd_sym(1, av, b.v());
                lemma_gcd_sym(gv, av, rabs(i.v()));
                lemma_mul_canonical(i.v(), 1, b.v(), av, gv, 1, i1, 1, b.v(), d1);
                lemma_wf_sign(i1 * b.v(), 1 * d1, s);
            }
        } @*/
        RBig(Repr {
            numerator: $b * ($i / &g) * $a.sign(),
            denominator: $a.unsigned_abs() / g,
        })
}
