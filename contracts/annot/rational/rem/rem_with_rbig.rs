//@ item: rational/src/div.rs :: macro impl_rem_with_rbig#0 :: @arm
/*@ requires b.v() > 0, d.v() > 0, c.v() != 0,   // documented: a zero divisor panics
        ra.v() == a.v(), rb.v() == b.v(), rc.v() == c.v(), rd.v() == d.v(), @*/
/*@ ensures ret.0.denominator.v() >= 1,
        exists|q: int| #[trigger] is_near_rem(a.v(), b.v(), c.v(), d.v(), ret.0.numerator.v(), ret.0.denominator.v(), q),
        wf_ratio(ret.0.numerator.v(), ret.0.denominator.v()), @*/
{
        let _unused = ($ra, $rc);
        let g_bd = Gcd::gcd($rb, $rd);
        /*@ let ghost g = g_bd.v();
            proof { lemma_exact_div(d.v(), g); lemma_exact_div(b.v(), g); } @*/

        // a/b % c/d = (ad % bc)/bd
        let ddg = $d / &g_bd;
        let left = &ddg * $a;
        let right = $rb / &g_bd * $c.unsigned_abs();
        /*@ let ghost lv = left.v(); let ghost rv = right.v(); let ghost dv = ddg.v(); let ghost bg = b.v() / g;
            proof {
                assert(bg * rabs(c.v()) >= 1) by (nonlinear_arith) requires bg >= 1, rabs(c.v()) >= 1;
                lemma_trem(lv, rv);
            } @*/

        let (sign, r1) = left.$method(&right).into_parts();
        let r2 = right - &r1;
        /*@ let ghost t = trem(lv, rv); let ghost r1v = r1.v(); let ghost r2v = r2.v(); @*/
        let rem = if r1 < r2 {
            IBig::from_parts(sign, r1)
        } else {
            IBig::from_parts(-sign, r2)
        };
        /*@ let ghost remv = rem.v();
            proof {
                assert(b.v() * dv >= 1) by (nonlinear_arith) requires b.v() >= 1, dv >= 1;
                assert(r1v == rabs(t) && r2v == rv - r1v);
                assert(sign == (if t < 0 { Sign::Negative } else { Sign::Positive }));
                if r1v < r2v {
                    assert(remv == sgn(sign) * r1v);
                    assert(remv == t) by (nonlinear_arith)
                        requires remv == sgn(sign) * r1v, (sgn(sign) == 1 && r1v == t) || (sgn(sign) == -1 && r1v == -t);
                } else {
                    assert(remv == sgn(sign_neg(sign)) * r2v);
                    if t >= 0 {
                        assert(sgn(sign_neg(sign)) == -1);
                        assert(remv == -r2v) by (nonlinear_arith) requires remv == sgn(sign_neg(sign)) * r2v, sgn(sign_neg(sign)) == -1;
                    } else {
                        assert(sgn(sign_neg(sign)) == 1);
                        assert(remv == r2v) by (nonlinear_arith) requires remv == sgn(sign_neg(sign)) * r2v, sgn(sign_neg(sign)) == 1;
                    }
                }
                assert(remv == near_pick(t, rv));
            } @*/

        RBig::from_parts(rem, $b * ddg)
        /*@ proof {
            let qq = lemma_near_rem(lv, rv, t, remv);
            lemma_rem_scale(a.v(), b.v(), c.v(), d.v(), g, dv, bg, lv, rv, remv, qq, ret.0.numerator.v(), ret.0.denominator.v());
            let s: int = if c.v() < 0 { -1 } else { 1 };
            assert(is_near_rem(a.v(), b.v(), c.v(), d.v(), ret.0.numerator.v(), ret.0.denominator.v(), qq * s));
        } @*/
}
