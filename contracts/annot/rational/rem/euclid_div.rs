//@ item: rational/src/div.rs :: macro impl_euclid_div#0 :: @arm
/*@ requires b.v() > 0, d.v() > 0, c.v() != 0,   // documented: a zero divisor panics
        ra.v() == a.v(), rb.v() == b.v(), rc.v() == c.v(), rd.v() == d.v(), @*/
/*@ ensures   // 0 <= a/b - ret * c/d < |c/d|
        0 <= a.v() * d.v() - ret.v() * (b.v() * c.v()) < b.v() * rabs(c.v()), @*/
{
        if $rc.is_zero() {
            panic_divide_by_0()
        }

        let _unused = ($ra, $rb, $rd);
        /*@ proof {
            lemma_rabs_mul(b.v(), c.v());
            lemma_erem(a.v() * d.v(), b.v() * c.v());
        } @*/
        ($a * $d).$method($b * $c)
}
