//@ item: rational/src/div.rs :: macro impl_euclid_rem_with_rbig#0 :: @arm
/*@ requires b.v() > 0, d.v() > 0, c.v() != 0,   // documented: a zero divisor panics
        ra.v() == a.v(), rb.v() == b.v(), rc.v() == c.v(), rd.v() == d.v(), @*/
/*@ ensures ret.0.denominator.v() >= 1,
        exists|q: int| #[trigger] is_euclid_rem(a.v(), b.v(), c.v(), d.v(), ret.0.numerator.v(), ret.0.denominator.v(), q),
        wf_ratio(ret.0.numerator.v(), ret.0.denominator.v()), @*/
{
        let _unused = ($ra, $rc);
        let g_bd = Gcd::gcd($rb, $rd);
        /*@ let ghost g = g_bd.v();
            proof { lemma_exact_div(d.v(), g); lemma_exact_div(b.v(), g); } @*/

        let ddg = $d / &g_bd;
        let left = &ddg * $a;
        let right = $rb / &g_bd * $c;
        /*@ let ghost lv = left.v(); let ghost rv = right.v(); let ghost dv = ddg.v(); let ghost bg = b.v() / g;
            proof {
                lemma_rabs_mul(bg, c.v());
                lemma_erem(lv, rv);
                assert(b.v() * dv >= 1) by (nonlinear_arith) requires b.v() >= 1, dv >= 1;
            } @*/
        RBig::from_parts(left.$method(right).into(), $b * ddg)
        /*@ proof {
            lemma_euclid_scale(a.v(), b.v(), c.v(), d.v(), g, dv, bg, lv, rv, ediv(lv, rv), erem(lv, rv),
                ret.0.numerator.v(), ret.0.denominator.v());
            assert(is_euclid_rem(a.v(), b.v(), c.v(), d.v(), ret.0.numerator.v(), ret.0.denominator.v(), ediv(lv, rv)));
        } @*/
}
