//@ item: rational/src/div.rs :: macro impl_euclid_divrem_with_relaxed#0 :: @arm
/*@ requires b.v() > 0, d.v() > 0, c.v() != 0,   // documented: a zero divisor panics
        ra.v() == a.v(), rb.v() == b.v(), rc.v() == c.v(), rd.v() == d.v(), @*/
/*@ ensures ret.1.0.denominator.v() >= 1,
        is_euclid_rem(a.v(), b.v(), c.v(), d.v(), ret.1.0.numerator.v(), ret.1.0.denominator.v(), ret.0.v()), @*/
{
        let _unused = ($ra, $rc);

        let (left, right) = ($a * $rd, $c * $rb);
        /*@ let ghost lv = left.v(); let ghost rv = right.v();
            proof {
                lemma_rabs_mul(c.v(), b.v());
                lemma_erem(lv, rv);
                ax_from_self_pair();
                assert(b.v() * d.v() >= 1) by (nonlinear_arith) requires b.v() >= 1, d.v() >= 1;
            } @*/
        let (q, r) = left.$method(right).into();
        (q, Relaxed::from_parts(r.into(), $b * $d))
        /*@ proof {
            assert(lv == d.v() * a.v() && rv == b.v() * c.v()) by (nonlinear_arith)
                requires lv == a.v() * d.v(), rv == c.v() * b.v();
            lemma_euclid_scale(a.v(), b.v(), c.v(), d.v(), 1, d.v(), b.v(), lv, rv, ediv(lv, rv), erem(lv, rv),
                ret.1.0.numerator.v(), ret.1.0.denominator.v());
        } @*/
}
