//@ item: rational/src/div.rs :: macro impl_rem_with_relaxed#0 :: @arm
/*@ requires b.v() > 0, d.v() > 0, c.v() != 0,   // documented: a zero divisor panics
        ra.v() == a.v(), rb.v() == b.v(), rc.v() == c.v(), rd.v() == d.v(), @*/
/*@ ensures ret.0.denominator.v() >= 1,
        exists|q: int| #[trigger] is_near_rem(a.v(), b.v(), c.v(), d.v(), ret.0.numerator.v(), ret.0.denominator.v(), q), @*/
{
        let _unused = ($ra, $rc);

        let (left, right) = ($a * $rd, $c.unsigned_abs() * $rb);
        /*@ let ghost lv = left.v(); let ghost rv = right.v();
            proof {
                assert(rabs(c.v()) * b.v() >= 1) by (nonlinear_arith) requires b.v() >= 1, rabs(c.v()) >= 1;
                lemma_trem(lv, rv);
            } @*/
        let (sign, r1) = left.$method(&right).into_parts();
        let r2 = right - &r1;
        /*@ let ghost t = trem(lv, rv); let ghost r1v = r1.v(); let ghost r2v = r2.v(); @*/
        let rem = if r1 < r2 {
            IBig::from_parts(sign, r1)
        } else {
            IBig::from_parts(-sign, r2)
        };
        /*@ let ghost remv = rem.v();
            proof {
                assert(b.v() * d.v() >= 1) by (nonlinear_arith) requires b.v() >= 1, d.v() >= 1;
                assert(r1v == rabs(t) && r2v == rv - r1v);
                assert(sign == (if t < 0 { Sign::Negative } else { Sign::Positive }));
                if r1v < r2v {
                    assert(remv == sgn(sign) * r1v);
                    assert(remv == t) by (nonlinear_arith)
                        requires remv == sgn(sign) * r1v, (sgn(sign) == 1 && r1v == t) || (sgn(sign) == -1 && r1v == -t);
                } else {
                    assert(remv == sgn(sign_neg(sign)) * r2v);
                    if t >= 0 {
                        assert(sgn(sign_neg(sign)) == -1);
                        assert(remv == -r2v) by (nonlinear_arith) requires remv == sgn(sign_neg(sign)) * r2v, sgn(sign_neg(sign)) == -1;
                    } else {
                        assert(sgn(sign_neg(sign)) == 1);
                        assert(remv == r2v) by (nonlinear_arith) requires remv == sgn(sign_neg(sign)) * r2v, sgn(sign_neg(sign)) == 1;
                    }
                }
                assert(remv == near_pick(t, rv));
            } @*/

        Relaxed::from_parts(rem, $b * $d)
        /*@ proof {
            let qq = lemma_near_rem(lv, rv, t, remv);
            assert(lv == d.v() * a.v() && rv == b.v() * rabs(c.v())) by (nonlinear_arith)
                requires lv == a.v() * d.v(), rv == rabs(c.v()) * b.v();
            lemma_rem_scale(a.v(), b.v(), c.v(), d.v(), 1, d.v(), b.v(), lv, rv, remv, qq, ret.0.numerator.v(), ret.0.denominator.v());
            let s: int = if c.v() < 0 { -1 } else { 1 };
            assert(is_near_rem(a.v(), b.v(), c.v(), d.v(), ret.0.numerator.v(), ret.0.denominator.v(), qq * s));
        } @*/
}
