//@ item: rational/src/mul.rs :: macro impl_mul_with_relaxed#0 :: @arm
/*@ requires b.v() > 0, d.v() > 0, ra.v() == a.v(), rb.v() == b.v(), rc.v() == c.v(), rd.v() == d.v(), @*/
/*@ ensures ret.0.numerator.v() * (b.v() * d.v()) == (a.v() * c.v()) * ret.0.denominator.v(),
        ret.0.denominator.v() >= 1, @*/
{
        let _unused = ($ra, $rb, $rc, $rd);
        /*@ proof { assert(b.v() * d.v() >= 1) by (nonlinear_arith) requires b.v() >= 1, d.v() >= 1; } @*/
        Relaxed::from_parts($a.$method($c), $b.$method($d))
}
