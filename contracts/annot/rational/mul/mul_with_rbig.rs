//@ item: rational/src/mul.rs :: macro impl_mul_with_rbig#0 :: @arm
/*@ requires b.v() > 0, d.v() > 0, ra.v() == a.v(), rb.v() == b.v(), rc.v() == c.v(), rd.v() == d.v(), @*/
/*@ ensures ret.0.numerator.v() * (b.v() * d.v()) == (a.v() * c.v()) * ret.0.denominator.v(),
        ret.0.denominator.v() >= 1,
        wf_ratio(a.v(), b.v()) && wf_ratio(c.v(), d.v()) ==> wf_ratio(ret.0.numerator.v(), ret.0.denominator.v()), @*/
{
        // a/b * c/d = (ac)/gcd(a,d)/gcd(b,c)/(bd)
        let g_ad = $ra.gcd($rd);
        let g_bc = $rb.gcd($rc);
        /*@ proof {
            lemma_tdiv_exact(a.v(), g_ad.v()); lemma_exact_div(d.v(), g_ad.v());
            lemma_tdiv_exact(c.v(), g_bc.v()); lemma_exact_div(b.v(), g_bc.v());
            let a1 = tdiv(a.v(), g_ad.v()); let d1 = d.v() / g_ad.v();
            let c1 = tdiv(c.v(), g_bc.v()); let b1 = b.v() / g_bc.v();
            lemma_mul_value(a.v(), b.v(), c.v(), d.v(), g_ad.v(), g_bc.v(), a1, b1, c1, d1);
            assert(b1 * d1 >= 1) by (nonlinear_arith) requires b1 >= 1, d1 >= 1;
            if wf_ratio(a.v(), b.v()) && wf_ratio(c.v(), d.v()) {
                lemma_mul_canonical(a.v(), b.v(), c.v(), d.v(), g_ad.v(), g_bc.v(), a1, b1, c1, d1);
            }
        } @*/
        RBig(Repr {
            numerator: ($a / &g_ad).$method($c / &g_bc),
            denominator: ($b / g_bc).$method($d / g_ad),
        })
}
