//@ item: rational/src/convert.rs :: impl Repr :: to_f64
fn to_f64(&self) -> Approximation<f64, Sign>
/*@
    requires
        self.denominator.v() > 0,                                          // invariant of Repr
        // isize arithmetic on the bit lengths (overflow of isize is outside this contract)
        blen(self.numerator.v()) < isize::MAX / 2 - 64, blen(self.denominator.v()) < isize::MAX / 2 - 64,
        // KNOWN FINDING (genuine defect, see report): double rounding.  The quotient (53 or 54 bits) is rounded to an
        // integer and `encode` rounds that integer AGAIN when it does not fit 53 bits / falls in the subnormal range:
        // RBig (7 * (2^53 + 1) + 3)/7 = 2^53 + 1.43 -> 2^53, correct: 2^53 + 2.
        // Region excluded: non-zero remainder AND rounded quotient * 2^shift not representable.
        !(-1074 - 54 <= rq_shift(self.numerator.v(), self.denominator.v(), 52) < 1024
            && ratio_double_rounding(fmt64(), self.numerator.v(), self.denominator.v())),
    ensures
        // C06: the correctly rounded (RNE) f32 of numerator/denominator, Exact iff nothing was lost, else the sign of
        // result - exact
        ap64_ok(ret, self.numerator.v() < 0, absi(self.numerator.v()), self.denominator.v()),
@*/
{
        /*@ broadcast use ax_blen, ax_f64_neg; @*/
        // shortcut
        if self.numerator.is_zero() {
            return Exact(0.);
        }

        // to get enough precision, shift such that numerator has
        // 53 bits more than the denominator
        let sign = self.numerator.sign();
        let num_bits = self.numerator.bit_len();
        let den_bits = self.denominator.bit_len();

        let shift = num_bits as isize - den_bits as isize - 53; // i.e. exponent
        /*@ let ghost xn = absi(self.numerator.v()); let ghost xd = self.denominator.v(); let ghost neg = self.numerator.v() < 0;
            let ghost e = shift as int; let ghost gn = rs_num(xn, e); let ghost gd = rs_den(xd, e);
            proof {
                lemma_quot_bounds(xn, xd, num_bits as nat, den_bits as nat, 52, e);
                lemma_pow2_consts();
                if e >= 0 { lemma_pow2_pos(e as nat); } else { lemma_pow2_pos((-e) as nat); }
            } @*/
        let (num, den) = if shift >= 0 {
            (self.numerator.clone(), (&self.denominator) << shift as usize)
        } else {
            ((&self.numerator) << (-shift) as usize, self.denominator.clone())
        };
        /*@ proof {
            assert(den.v() == gd);
            assert(absi(num.v()) == gn) by {
                if e < 0 {
                    let u = pow2((-e) as nat) as int;
                    let v = self.numerator.v();
                    assert(absi(v * u) == absi(v) * u) by (nonlinear_arith) requires u > 0;
                }
            }
        } @*/

        // then construct the
        if shift >= 1024 {
            /*@ proof {
                lemma_ratio_overflow(fmt64(), neg, xn, xd, e);
            } @*/
            // max f64 = 2^1024 × (1 − 2^−53)
            Inexact(sign * f64::INFINITY, sign)
        } else if shift < -1074 - 54 {
            /*@ proof {
                // shift <= -1129 and quotient < 2^54: x < 2^-1075
                lemma_underflow_from_quot(fmt64(), neg, xn, xd, e, 54);
            } @*/
            // min f64 = 2^-1074, quotient has at most 54 bits
            Inexact(sign * 0f64, -sign)
        } else {
            /*@ proof { lemma_rq_man(gn, gd); } @*/
            let (man, r) = num.unsigned_abs().div_rem(&den);
            /*@ proof {
                lemma_quot_fits(gn, gd, 54);
                assert(man.v() == gn / gd && r.v() == gn % gd);
            } @*/
            let man: u64 = man.try_into().unwrap();

            // round to nearest, ties to even
            if r.is_zero() {
                Exact(man)
            } else {
                let half = (r << 1).cmp(&den);
                /*@ proof { assert((man & 1 > 0) == (man % 2 != 0)) by (bit_vector); } @*/
                if half == Ordering::Greater || (half == Ordering::Equal && man & 1 > 0) {
                    Inexact(man + 1, sign)
                } else {
                    Inexact(man, -sign)
                }
            }
            .and_then(|man| /*@ -> (o: Approximation<f64, Sign>)
                requires man <= 0x40000000000000
                ensures enc_args64(o, sign, man, shift) @*/
                f64::encode(sign * man as i64, shift as i16))
        }
        /*@ proof {
            if -1074 - 54 <= e < 1024 {
                lemma_rq_man(gn, gd);
                let a = rq_man(gn, gd);
                let fr = fields64(ap_val(ret));
                lemma_pow2_pos(52);
                vstd::arithmetic::div_mod::lemma_mod_bound(ap_val(ret).to_bits_spec() as int, 0x10_0000_0000_0000);
                assert forall|o: Approximation<f64, Sign>| #[trigger] enc_args64(o, sign, a as u64, shift) implies
                    ap64_ok(o, neg, sc_num(a, e), sc_den(e)) by { lemma_enc_args64(o, sign, a as u64, shift); }
                lemma_ratio_final(fmt64(), neg, xn, xd, e, fr, ap_exact(ret), ap_pos(ret));
            }
        } @*/
    }
