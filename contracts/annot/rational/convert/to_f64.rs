//@ item: rational/src/convert.rs :: impl Repr :: to_f64
fn to_f64(&self) -> Approximation<f64, Sign>
/*@
    requires
        self.denominator.v() > 0,                                          // invariant of Repr
        // isize arithmetic on the bit lengths (overflow of isize is outside this contract)
        blen(self.numerator.v()) < isize::MAX / 2 - 64, blen(self.denominator.v()) < isize::MAX / 2 - 64,
    ensures
        // C06: the correctly rounded (RNE) f32 of numerator/denominator, Exact iff nothing was lost, else the sign of
        // result - exact
        ap64_ok(ret, self.numerator.v() < 0, absi(self.numerator.v()), self.denominator.v()),
@*/
{
        /*@ broadcast use ax_blen, ax_f64_neg; @*/
        // shortcut
        if self.numerator.is_zero() {
            return Exact(0.);
        }

        // to get enough precision, shift such that numerator has 55 bits more than
        // the denominator (two guard bits, so that the only rounding happens in encode)
        let sign = self.numerator.sign();
        let num_bits = self.numerator.bit_len();
        let den_bits = self.denominator.bit_len();

        let shift = num_bits as isize - den_bits as isize - 55; // i.e. exponent
        /*@ let ghost xn = absi(self.numerator.v()); let ghost xd = self.denominator.v(); let ghost neg = self.numerator.v() < 0;
            let ghost e = shift as int; let ghost gn = rs_num(xn, e); let ghost gd = rs_den(xd, e);
            proof {
                // 2^54 <= quotient < 2^56
                lemma_quot_bounds(xn, xd, num_bits as nat, den_bits as nat, 54, e);
                lemma_pow2_consts();
                if e >= 0 { lemma_pow2_pos(e as nat); } else { lemma_pow2_pos((-e) as nat); }
            } @*/
        let (num, den) = if shift >= 0 {
            (self.numerator.clone(), (&self.denominator) << shift as usize)
        } else {
            ((&self.numerator) << (-shift) as usize, self.denominator.clone())
        };
        /*@ proof {
            assert(den.v() == gd);
            assert(absi(num.v()) == gn) by {
                if e < 0 {
                    let u = pow2((-e) as nat) as int;
                    let v = self.numerator.v();
                    assert(absi(v * u) == absi(v) * u) by (nonlinear_arith) requires u > 0;
                }
            }
        } @*/

        // then construct the
        if shift >= 1024 {
            /*@ proof {
                assert(gn >= pow2(52) * gd) by (nonlinear_arith) requires gn >= 0x40000000000000 * gd, pow2(52) == 0x10000000000000, gd > 0;
                lemma_ratio_overflow(fmt64(), neg, xn, xd, e);
            } @*/
            // max f64 = 2^1024 × (1 − 2^−53)
            Inexact(sign * f64::INFINITY, sign)
        } else if shift < -1074 - 56 {
            /*@ proof {
                lemma_underflow_from_quot(fmt64(), neg, xn, xd, e, 56);
            } @*/
            // min f64 = 2^-1074, quotient has at most 56 bits
            Inexact(sign * 0f64, -sign)
        } else {
            let (man, r) = num.unsigned_abs().div_rem(&den);
            /*@ proof {
                lemma_quot_range(gn, gd, 0x40000000000000, 56);
                assert(man.v() == gn / gd && r.v() == gn % gd);
            } @*/
            let man: u64 = man.try_into().unwrap();
            /*@ let ghost q = man as int; let ghost rr = r.v(); @*/

            // append a sticky bit for the remainder and let encode round (to nearest, ties to even)
            /*@ proof {
                let sb = (!(rr == 0)) as u64;
                assert(((man << 1) | sb) == 2 * man + sb && ((man << 1) | sb) < 0x200000000000000) by (bit_vector)
                    requires man < 0x100000000000000, sb == 0 || sb == 1;
            } @*/
            let man = (man << 1) | (!r.is_zero()) as u64;
            f64::encode(sign * man as i64, (shift - 1) as i16)
        }
        /*@ proof {
            if -1074 - 56 <= e < 1024 {
                let q = gn / gd;
                let rr = gn % gd;
                let fr = fields64(ap_val(ret));
                lemma_quot_range(gn, gd, 0x40000000000000, 56);
                lemma_pow2_pos(52);
                vstd::arithmetic::div_mod::lemma_mod_bound(ap_val(ret).to_bits_spec() as int, 0x10_0000_0000_0000);
                // what encode rounded is (2q + sticky) * 2^(shift-1): by the sticky lemma that is the rounding of x itself
                lemma_sticky_rne_q(fmt64(), neg, xn, xd, e, q, rr, 55, fr, ap_exact(ret), ap_pos(ret));
            }
        } @*/
    }
