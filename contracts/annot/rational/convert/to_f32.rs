//@ item: rational/src/convert.rs :: impl Repr :: to_f32
fn to_f32(&self) -> Approximation<f32, Sign>
/*@
    requires
        self.denominator.v() > 0,                                          // invariant of Repr
        // isize arithmetic on the bit lengths (overflow of isize is outside this contract)
        blen(self.numerator.v()) < isize::MAX / 2 - 64, blen(self.denominator.v()) < isize::MAX / 2 - 64,
    ensures
        // C06: the correctly rounded (RNE) f32 of numerator/denominator, Exact iff nothing was lost, else the sign of
        // result - exact
        ap32_ok(ret, self.numerator.v() < 0, absi(self.numerator.v()), self.denominator.v()),
@*/
{
        /*@ broadcast use ax_blen, ax_f32_neg; @*/
        // shortcut
        if self.numerator.is_zero() {
            return Exact(0.);
        }

        // to get enough precision, shift such that numerator has 26 bits more than
        // the denominator (two guard bits, so that the only rounding happens in encode)
        let sign = self.numerator.sign();
        let num_bits = self.numerator.bit_len();
        let den_bits = self.denominator.bit_len();

        let shift = num_bits as isize - den_bits as isize - 26; // i.e. exponent
        /*@ let ghost xn = absi(self.numerator.v()); let ghost xd = self.denominator.v(); let ghost neg = self.numerator.v() < 0;
            let ghost e = shift as int; let ghost gn = rs_num(xn, e); let ghost gd = rs_den(xd, e);
            proof {
                // 2^25 <= quotient < 2^27
                lemma_quot_bounds(xn, xd, num_bits as nat, den_bits as nat, 25, e);
                lemma_pow2_consts();
                if e >= 0 { lemma_pow2_pos(e as nat); } else { lemma_pow2_pos((-e) as nat); }
            } @*/
        let (num, den) = if shift >= 0 {
            (self.numerator.clone(), (&self.denominator) << shift as usize)
        } else {
            ((&self.numerator) << (-shift) as usize, self.denominator.clone())
        };
        /*@ proof {
            assert(den.v() == gd);
            assert(absi(num.v()) == gn) by {
                if e < 0 {
                    let u = pow2((-e) as nat) as int;
                    let v = self.numerator.v();
                    assert(absi(v * u) == absi(v) * u) by (nonlinear_arith) requires u > 0;
                }
            }
        } @*/

        // then construct the
        if shift >= 128 {
            /*@ proof {
                assert(gn >= pow2(23) * gd) by (nonlinear_arith) requires gn >= 0x2000000 * gd, pow2(23) == 0x800000, gd > 0;
                lemma_ratio_overflow(fmt32(), neg, xn, xd, e);
            } @*/
            // max f32 = 2^128 * (1 - 2^-24)
            Inexact(sign * f32::INFINITY, sign)
        } else if shift < -149 - 27 {
            /*@ proof {
                lemma_underflow_from_quot(fmt32(), neg, xn, xd, e, 27);
            } @*/
            // min f32 = 2^-149, quotient has at most 27 bits
            Inexact(sign * 0f32, -sign)
        } else {
            let (man, r) = num.unsigned_abs().div_rem(&den);
            /*@ proof {
                lemma_quot_range(gn, gd, 0x2000000, 27);
                assert(man.v() == gn / gd && r.v() == gn % gd);
            } @*/
            let man: u32 = man.try_into().unwrap();
            /*@ let ghost q = man as int; let ghost rr = r.v(); @*/

            // append a sticky bit for the remainder and let encode round (to nearest, ties to even)
            /*@ proof {
                let sb = (!(rr == 0)) as u32;
                assert(((man << 1) | sb) == 2 * man + sb && ((man << 1) | sb) < 0x10000000) by (bit_vector)
                    requires man < 0x8000000, sb == 0 || sb == 1;
            } @*/
            let man = (man << 1) | (!r.is_zero()) as u32;
            f32::encode(sign * man as i32, (shift - 1) as i16)
        }
        /*@ proof {
            if -149 - 27 <= e < 128 {
                let q = gn / gd;
                let rr = gn % gd;
                let fr = fields32(ap_val(ret));
                lemma_quot_range(gn, gd, 0x2000000, 27);
                lemma_pow2_pos(23);
                vstd::arithmetic::div_mod::lemma_mod_bound(ap_val(ret).to_bits_spec() as int, 0x80_0000);
                // what encode rounded is (2q + sticky) * 2^(shift-1): by the sticky lemma that is the rounding of x itself
                lemma_sticky_rne_q(fmt32(), neg, xn, xd, e, q, rr, 26, fr, ap_exact(ret), ap_pos(ret));
            }
        } @*/
    }
