//@ item: rational/src/convert.rs :: impl Repr :: to_f32
fn to_f32(&self) -> Approximation<f32, Sign>
/*@
    requires
        self.denominator.v() > 0,                                          // invariant of Repr
        // isize arithmetic on the bit lengths (overflow of isize is outside this contract)
        blen(self.numerator.v()) < isize::MAX / 2 - 64, blen(self.denominator.v()) < isize::MAX / 2 - 64,
        // KNOWN FINDING (genuine defect, see report): double rounding.  The quotient (24 or 25 bits) is rounded to an
        // integer and `encode` rounds that integer AGAIN when it does not fit 24 bits / falls in the subnormal range:
        // RBig 117440522/7 = 16777217.43 -> Inexact(16777216.0, Negative), correct: 16777218.0 (Positive).
        // Region excluded: non-zero remainder AND rounded quotient * 2^shift not representable.
        !(-149 - 25 <= rq_shift(self.numerator.v(), self.denominator.v(), 23) < 128
            && ratio_double_rounding(fmt32(), self.numerator.v(), self.denominator.v())),
    ensures
        // C06: the correctly rounded (RNE) f32 of numerator/denominator, Exact iff nothing was lost, else the sign of
        // result - exact
        ap32_ok(ret, self.numerator.v() < 0, absi(self.numerator.v()), self.denominator.v()),
@*/
{
        /*@ broadcast use ax_blen, ax_f32_neg; @*/
        // shortcut
        if self.numerator.is_zero() {
            return Exact(0.);
        }

        // to get enough precision, shift such that numerator has
        // 24 bits more than the denominator
        let sign = self.numerator.sign();
        let num_bits = self.numerator.bit_len();
        let den_bits = self.denominator.bit_len();

        let shift = num_bits as isize - den_bits as isize - 24; // i.e. exponent
        /*@ let ghost xn = absi(self.numerator.v()); let ghost xd = self.denominator.v(); let ghost neg = self.numerator.v() < 0;
            let ghost e = shift as int; let ghost gn = rs_num(xn, e); let ghost gd = rs_den(xd, e);
            proof {
                lemma_quot_bounds(xn, xd, num_bits as nat, den_bits as nat, 23, e);
                lemma_pow2_consts();
                if e >= 0 { lemma_pow2_pos(e as nat); } else { lemma_pow2_pos((-e) as nat); }
            } @*/
        let (num, den) = if shift >= 0 {
            (self.numerator.clone(), (&self.denominator) << shift as usize)
        } else {
            ((&self.numerator) << (-shift) as usize, self.denominator.clone())
        };
        /*@ proof {
            assert(den.v() == gd);
            assert(absi(num.v()) == gn) by {
                if e < 0 {
                    let u = pow2((-e) as nat) as int;
                    let v = self.numerator.v();
                    assert(absi(v * u) == absi(v) * u) by (nonlinear_arith) requires u > 0;
                }
            }
        } @*/

        // then construct the
        if shift >= 128 {
            /*@ proof {
                lemma_ratio_overflow(fmt32(), neg, xn, xd, e);
            } @*/
            // max f32 = 2^128 * (1 - 2^-24)
            Inexact(sign * f32::INFINITY, sign)
        } else if shift < -149 - 25 {
            /*@ proof {
                lemma_underflow_from_quot(fmt32(), neg, xn, xd, e, 25);
            } @*/
            // min f32 = 2^-149, quotient has at most 25 bits
            Inexact(sign * 0f32, -sign)
        } else {
            /*@ proof { lemma_rq_man(gn, gd); } @*/
            let (man, r) = num.unsigned_abs().div_rem(&den);
            /*@ proof {
                lemma_quot_fits(gn, gd, 25);
                assert(man.v() == gn / gd && r.v() == gn % gd);
            } @*/
            let man: u32 = man.try_into().unwrap();

            // round to nearest, ties to even
            if r.is_zero() {
                Exact(man)
            } else {
                let half = (r << 1).cmp(&den);
                /*@ proof { assert((man & 1 > 0) == (man % 2 != 0)) by (bit_vector); } @*/
                if half == Ordering::Greater || (half == Ordering::Equal && man & 1 > 0) {
                    Inexact(man + 1, sign)
                } else {
                    Inexact(man, -sign)
                }
            }
            .and_then(|man| /*@ -> (o: Approximation<f32, Sign>)
                requires man <= 0x2000000
                ensures enc_args32(o, sign, man, shift) @*/
                f32::encode(sign * man as i32, shift as i16))
        }
        /*@ proof {
            if -149 - 25 <= e < 128 {
                lemma_rq_man(gn, gd);
                let a = rq_man(gn, gd);
                let fr = fields32(ap_val(ret));
                lemma_pow2_pos(23);
                vstd::arithmetic::div_mod::lemma_mod_bound(ap_val(ret).to_bits_spec() as int, 0x80_0000);
                assert forall|o: Approximation<f32, Sign>| #[trigger] enc_args32(o, sign, a as u32, shift) implies
                    ap32_ok(o, neg, sc_num(a, e), sc_den(e)) by { lemma_enc_args32(o, sign, a as u32, shift); }
                lemma_ratio_final(fmt32(), neg, xn, xd, e, fr, ap_exact(ret), ap_pos(ret));
            }
        } @*/
    }
