//@ item: rational/src/convert.rs :: macro impl_conversion_to_float#0 :: impl TryFrom<RBig> for $t :: try_from
fn try_from(value: RBig) -> Result<Self, Self::Error>
/*@[f32] #[hoist(Self = f32, Error = ConversionError)] @*/
/*@[f64] #[hoist(Self = f64, Error = ConversionError)] @*/
/*@
    requires
        value.0.denominator.v() > 0,                                                  // invariant of Repr
        // lowest terms (invariant of RBig); the consequence used: numerator and denominator are not both even
        value.0.denominator.v() % 2 == 0 ==> value.0.numerator.v() % 2 != 0,
        // isize arithmetic on the bit lengths (overflow of isize is outside this contract)
        blen(value.0.numerator.v()) < isize::MAX / 2 - 64, blen(value.0.denominator.v()) < isize::MAX / 2 - 64,
    ensures
        // C06: never panics (total under the invariant), and succeeds only if the float holds EXACTLY numerator/denominator
        value.0.numerator.v() == 0 ==> ret is Ok,
@*/
/*@[f32] ret matches Ok(v) ==> rne_ok(fmt32(), value.0.numerator.v() < 0, absi(value.0.numerator.v()), value.0.denominator.v(), fields32(v), true, false), @*/
/*@[f64] ret matches Ok(v) ==> rne_ok(fmt64(), value.0.numerator.v() < 0, absi(value.0.numerator.v()), value.0.denominator.v(), fields64(v), true, false), @*/
{
                /*@ broadcast use ax_blen, ax_ibig_of, ax_ubig_of, ax_ubig_nonneg; @*/
                /*@ let ghost num = value.0.numerator.v(); let ghost den = value.0.denominator.v();
                    let ghost mut g_tz = 0int; let ghost mut g_db = 0int; @*/
                if value.0.numerator.is_zero() {
                    Ok(0.)
                } else if value.0.denominator.is_power_of_two() {
                    // conversion is exact only if the denominator is a power of two
                    let num_bits = value.0.numerator.bit_len();
                    let den_bits = value.0.denominator.trailing_zeros().unwrap();
                    /*@ proof {
                        g_db = den_bits as int;
                        lemma_tz_bound(den, g_db);
                        lemma_pow2_lt_exp(g_db as nat, blen(den));
                    } @*/
                    let top_bit = num_bits as isize - den_bits as isize;
                    if top_bit > $ub {
                        // see to_f32::encode for explanation of the bounds
                        Err(ConversionError::OutOfBounds)
                    } else if top_bit < $lb {
                        Err(ConversionError::LossOfPrecision)
                    } else {
                        // move the trailing zeros of the numerator to the exponent, the rest has
                        // too many significant bits if it doesn't fit in the mantissa type
                        let num_zeros = value.0.numerator.trailing_zeros().unwrap();
                        /*@ proof {
                            g_tz = num_zeros as int;
                            lemma_tz_bound(absi(num), g_tz);
                            lemma_pow2_lt_exp(g_tz as nat, blen(num));
                            lemma_exact_shift(num, g_tz);
                        } @*/
                        let exponent = num_zeros as isize - den_bits as isize;
                        let mantissa = match (value.0.numerator >> num_zeros).try_into() {
                            Ok(man) => man,
                            Err(_) => return Err(ConversionError::LossOfPrecision),
                        };
                        /*@ proof {
                            // the exponent fits i16: den == 1 gives 0 <= exponent < top_bit; otherwise the numerator is
                            // odd, has no trailing zeros, fits the mantissa type and -exponent <= its length - lb
                            let j = choose|j: nat| den == #[trigger] pow2(j);
                            lemma_pow2_tz(j, g_db);
                            lemma2_to64(); lemma2_to64_rest();
                            assert(den == pow2(g_db as nat));
                            let d = pow2(g_tz as nat) as int;
                            let m = num / d;
                            assert(mantissa as int == m);
                            if g_db >= 1 {
                                lemma_pow2_succ((g_db - 1) as nat);
                                assert((g_db - 1) as nat + 1 == g_db as nat);
                                assert(den % 2 == 0) by {
                                    let h = pow2((g_db - 1) as nat) as int;
                                    vstd::arithmetic::div_mod::lemma_mod_multiples_basic(h, 2);
                                    assert(h * 2 == den);
                                }
                                assert(absi(num) % 2 != 0);
                                lemma_odd_tz(absi(num), g_tz);
                                assert(d == 1);
                                assert(m * d == m) by (nonlinear_arith) requires d == 1;
                                assert(m == num);
                                lemma_blen_le(num, 64);
                            }
                            assert(g_tz == 0 || g_db == 0);
                            assert(-0x8000 <= g_tz - g_db < 0x8000);
                        } @*/
                        match <$t>::encode(mantissa, exponent as i16) {
                            Exact(v) => Ok(v),
                            Inexact(v, _) => {
                                if v.is_infinite() {
                                    Err(ConversionError::OutOfBounds)
                                } else {
                                    Err(ConversionError::LossOfPrecision)
                                }
                            }
                        }
                    }
                } else {
                    Err(ConversionError::LossOfPrecision)
                }
                /*@[f32] proof {
                    if num != 0 && ret is Ok {
                        let d = pow2(g_tz as nat) as int;
                        let m = num / d;
                        let e = g_tz - g_db;
                        lemma_try_float_value(num, den, g_tz, g_db);
                        lemma_rne_same_value(fmt32(), num < 0, sc_num(absi(m), e), sc_den(e), absi(num), den, fields32(ret->Ok_0), true, false);
                    }
                } @*/
                /*@[f64] proof {
                    if num != 0 && ret is Ok {
                        let d = pow2(g_tz as nat) as int;
                        let m = num / d;
                        let e = g_tz - g_db;
                        lemma_try_float_value(num, den, g_tz, g_db);
                        lemma_rne_same_value(fmt64(), num < 0, sc_num(absi(m), e), sc_den(e), absi(num), den, fields64(ret->Ok_0), true, false);
                    }
                } @*/
            }
