//@ item: rational/src/cmp.rs :: repr_cmp
fn repr_cmp<const ABS: bool>(lhs: &Repr, rhs: &Repr) -> Ordering
/*@ requires lhs.denominator.v() > 0, rhs.denominator.v() > 0,
    ensures ret == ratio_cmp_spec(ABS, lhs.numerator.v(), lhs.denominator.v(), rhs.numerator.v(), rhs.denominator.v()), @*/
{
    /*@ let ghost (an, ad, cn, cd) = (lhs.numerator.v(), lhs.denominator.v(), rhs.numerator.v(), rhs.denominator.v());
        proof { lemma_sign_prod(an, cd); lemma_sign_prod(cn, ad); } @*/
    // step1: compare sign
    let negative = if ABS {
        false
    } else {
        match (lhs.numerator.sign(), rhs.numerator.sign()) {
            (Positive, Positive) => false,
            (Positive, Negative) => return Ordering::Greater,
            (Negative, Positive) => return Ordering::Less,
            (Negative, Negative) => true,
        }
    };

    // step2: if both numbers are integers or one of them is zero
    if lhs.denominator.is_one() && rhs.denominator.is_one() {
        /*@ proof {
            assert(an * cd == an && cn * ad == cn && rabs(an) * cd == rabs(an) && rabs(cn) * ad == rabs(cn))
                by (nonlinear_arith) requires cd == 1, ad == 1;
        } @*/
        return if ABS {
            lhs.numerator.abs_cmp(&rhs.numerator)
        } else {
            lhs.numerator.cmp(&rhs.numerator)
        };
    }
    match (lhs.numerator.is_zero(), rhs.numerator.is_zero()) {
        (true, true) => return Ordering::Equal,
        (true, false) => return Ordering::Less, // `b` must be strictly positive
        (false, true) => return Ordering::Greater, // `a` must be strictly positive
        _ => {}
    };

    // step3: test bit size
    let lhs_bits = lhs.numerator.bit_len() as isize - lhs.denominator.bit_len() as isize;
    let rhs_bits = rhs.numerator.bit_len() as isize - rhs.denominator.bit_len() as isize;
    /*@ proof {
        let (p1, q1, p2, q2) = (blen(rabs(an)), blen(ad), blen(rabs(cn)), blen(cd));
        ax_blen(rabs(an)); ax_blen(cd); ax_blen(rabs(cn)); ax_blen(ad);
        if p1 + q2 >= p2 + q1 + 2 {
            lemma_bits_gap(rabs(an), p1, cd, q2, rabs(cn), p2, ad, q1);
        }
        if p2 + q1 >= p1 + q2 + 2 {
            lemma_bits_gap(rabs(cn), p2, ad, q1, rabs(an), p1, cd, q2);
        }
    } @*/
    if lhs_bits > rhs_bits + 1 {
        return match negative {
            false => Ordering::Greater,
            true => Ordering::Less,
        };
    } else if rhs_bits < lhs_bits - 1 {
        return match negative {
            false => Ordering::Less,
            true => Ordering::Greater,
        };
    }

    // step4: finally do multiplication test
    let n1d2 = (&lhs.numerator) * (&rhs.denominator);
    let n2d1 = (&rhs.numerator) * (&lhs.denominator);
    if ABS {
        n1d2.abs_cmp(&n2d1)
    } else {
        n1d2.cmp(&n2d1)
    }
}
