//@ item: rational/src/cmp.rs :: impl AbsEq for RBig :: abs_eq
fn abs_eq(&self, other: &Self) -> bool
/*@ #[hoist(Self = RBig, Name = rbig_abs_eq)]
    requires wf_ratio(self.0.numerator.v(), self.0.denominator.v()), wf_ratio(other.0.numerator.v(), other.0.denominator.v()),
    ensures ret == (rabs(self.0.numerator.v()) * other.0.denominator.v() == rabs(other.0.numerator.v()) * self.0.denominator.v()), @*/
{
    /*@ proof {
        let (a, b, c, d) = (rabs(self.0.numerator.v()), self.0.denominator.v(), rabs(other.0.numerator.v()), other.0.denominator.v());
        assert(wf_ratio(a, b) && wf_ratio(c, d));
        if a * d == c * b { lemma_canonical_unique(a, b, c, d); }
    } @*/
    // representation of RBig is canonicalized, so it suffices to compare the components
    self.0.numerator.abs_eq(&other.0.numerator) && self.0.denominator == other.0.denominator
}
