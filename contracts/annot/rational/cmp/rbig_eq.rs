//@ item: rational/src/cmp.rs :: impl PartialEq for RBig :: eq
fn eq(&self, other: &Self) -> bool
/*@ #[hoist(Self = RBig, Name = rbig_eq)]
    requires wf_ratio(self.0.numerator.v(), self.0.denominator.v()), wf_ratio(other.0.numerator.v(), other.0.denominator.v()),
    ensures ret == (self.0.numerator.v() * other.0.denominator.v() == other.0.numerator.v() * self.0.denominator.v()), @*/
{
    /*@ proof {
        let (a, b, c, d) = (self.0.numerator.v(), self.0.denominator.v(), other.0.numerator.v(), other.0.denominator.v());
        if a * d == c * b { lemma_canonical_unique(a, b, c, d); }
    } @*/
    // representation of RBig is canonicalized, so it suffices to compare the components
    self.0.numerator == other.0.numerator && self.0.denominator == other.0.denominator
}
