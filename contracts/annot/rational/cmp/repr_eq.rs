//@ item: rational/src/cmp.rs :: repr_eq
fn repr_eq<const ABS: bool>(a: &Repr, b: &Repr) -> bool
/*@ requires a.denominator.v() > 0, b.denominator.v() > 0,
    ensures ret == ratio_eq_spec(ABS, a.numerator.v(), a.denominator.v(), b.numerator.v(), b.denominator.v()), @*/
{
    /*@ let ghost (an, ad, cn, cd) = (a.numerator.v(), a.denominator.v(), b.numerator.v(), b.denominator.v());
        proof { lemma_sign_prod(an, cd); lemma_sign_prod(cn, ad); } @*/
    // for relaxed representation, we have to compare it's actual value
    if !ABS && a.numerator.sign() != b.numerator.sign() {
        return false;
    }
    if a.numerator.is_zero() {
        return b.numerator.is_zero();
    }

    let n1d2_bits = a.numerator.bit_len() as isize + b.denominator.bit_len() as isize;
    let n2d1_bits = b.numerator.bit_len() as isize + a.denominator.bit_len() as isize;
    /*@ proof {
        let (p1, q2, p2, q1) = (blen(rabs(an)), blen(cd), blen(rabs(cn)), blen(ad));
        ax_blen(rabs(an)); ax_blen(cd); ax_blen(rabs(cn)); ax_blen(ad);
        if p1 + q2 >= p2 + q1 + 2 {
            lemma_bits_gap(rabs(an), p1, cd, q2, rabs(cn), p2, ad, q1);
        }
        if cn != 0 && p2 + q1 >= p1 + q2 + 2 {
            lemma_bits_gap(rabs(cn), p2, ad, q1, rabs(an), p1, cd, q2);
        }
    } @*/
    if n1d2_bits.abs_diff(n2d1_bits) > 1 {
        return false;
    }

    // do the final product after filtering out simple cases
    let lhs = &a.numerator * &b.denominator;
    let rhs = &b.numerator * &a.denominator;
    lhs.abs_eq(&rhs)
}
