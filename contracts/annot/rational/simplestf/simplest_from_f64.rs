//@ item: rational/src/simplify.rs :: impl RBig :: simplest_from_f64
pub fn simplest_from_f64(f: f64) -> Option<Self>
/*@ ensures
        // NaN and the infinities have no rational value
        fields64(f).eb == 0x7ff ==> ret is None,
        // +0.0 and -0.0
        (fields64(f).eb == 0 && fields64(f).frac == 0) ==> (ret matches Some(r) && r.0.numerator.v() == 0 && r.0.denominator.v() == 1),
        // otherwise: a canonical fraction that rounds (to nearest, ties to even) to f, and NO fraction that rounds to f is simpler
        (fields64(f).eb != 0x7ff && !(fields64(f).eb == 0 && fields64(f).frac == 0)) ==> (ret matches Some(r)
            && prim_post(fmt64(), fields64(f), r.0.numerator.v(), r.0.denominator.v())),
@*/
{
        impl_simplest_from_float!(f, f64)
    }
