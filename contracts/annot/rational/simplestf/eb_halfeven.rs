//@ item: float/src/round.rs :: impl ErrorBounds for mode::HalfEven :: error_bounds
fn error_bounds<const B: Word>(
        f: &FBig<Self, B>,
    ) -> (FBig<Self, B>, FBig<Self, B>, bool, bool)
/*@ #[hoist(Self = mode::HalfEven, Name = sf_error_bounds_halfeven)]
    requires
        B >= 2, !(f.repr.significand.v() == 0 && f.repr.exponent != 0),
        f.context.precision != 0 ==> eb_domain(B as int, f.repr.significand.v(), f.repr.exponent as int, f.context.precision as int),
    ensures
        // unlimited precision: only f itself
        f.context.precision == 0 ==> ret.0.repr.significand.v() == 0 && ret.0.repr.exponent == 0
            && ret.1.repr.significand.v() == 0 && ret.1.repr.exponent == 0 && ret.2 && ret.3,
        // otherwise exactly the reals that round to f
        f.context.precision != 0 ==> eb_post(Mode::HalfEven, B as int, f.repr.significand.v(), f.repr.exponent as int, f.context.precision as int,
            ret.0.repr.significand.v(), ret.0.repr.exponent as int, ret.1.repr.significand.v(), ret.1.repr.exponent as int, ret.2, ret.3),
        // (unit ratio_simplest_from_float) shape of the two bounds: ONE digit (0, 1 or B/2), precision of f (or the constant ZERO)
        f.context.precision != 0 ==> eb_shape(f.context.precision, ret.0) && eb_shape(f.context.precision, ret.1),
@*/
{
        /*@ broadcast use round_int_axioms, fbig_zero_const; @*/
        if f.precision() == 0 {
            return (FBig::ZERO, FBig::ZERO, true, true);
        }

        let mut half_ulp = f.ulp();
        half_ulp.repr.exponent -= 1;
        half_ulp.repr.significand = UBig::from_word((B + 1) / 2).into(); // ceil division

        // ties are rounded to the even significand (taken at full precision), so the bounds
        // belong to the interval iff the last digit of f at its precision is even
        let incl = !f.repr.significand.bit(0) || (B % 2 == 0 && f.repr.digits() < f.precision());

        // on the side towards zero of a power of the base the tie lies between B^precision (f) and
        // B^precision - 1 on the finer grid
        let mut half_ulp_tz = half_ulp.clone();
        let mut incl_tz = incl;
        if is_power_of_base(f) {
            half_ulp_tz.repr.exponent -= 1;
            incl_tz = B % 2 == 0;
        }
        match f.repr.sign() {
            Sign::Positive => (half_ulp_tz, half_ulp, incl_tz, incl),
            Sign::Negative => (half_ulp, half_ulp_tz, incl, incl_tz),
        }
        /*@ proof {
            let (b, sig, exp, p) = (B as int, f.repr.significand.v(), f.repr.exponent as int, f.context.precision as int);
            let d = ndigits(b, sig) as int;
            let pw = eb_pow(sig);
            let g = eb_g(b, sig);
            let m = sig * ipow(b, (p - d) as nat);
            lemma_grid_sig(b, sig, (p - d) as nat);
            lemma_half_units(b, exp + d - p, pw);
            lemma_eb_table(Mode::HalfEven, m, g);
            lemma_grid_parity(b, sig, (p - d) as nat);
            lemma_fine_parity(b, m, pw);
            let t = eb_table(Mode::HalfEven, m, g);
            assert(eb_exact(Mode::HalfEven, m, g, t.0, t.1, ret.2, ret.3));
        } @*/
    }
