//@ item: rational/src/simplify.rs :: impl RBig :: simplest_from_f32
pub fn simplest_from_f32(f: f32) -> Option<Self>
/*@ ensures
        // NaN and the infinities have no rational value
        fields32(f).eb == 0xff ==> ret is None,
        // +0.0 and -0.0
        (fields32(f).eb == 0 && fields32(f).frac == 0) ==> (ret matches Some(r) && r.0.numerator.v() == 0 && r.0.denominator.v() == 1),
        // otherwise: a canonical fraction that rounds (to nearest, ties to even) to f, and NO fraction that rounds to f is simpler
        (fields32(f).eb != 0xff && !(fields32(f).eb == 0 && fields32(f).frac == 0)) ==> (ret matches Some(r)
            && prim_post(fmt32(), fields32(f), r.0.numerator.v(), r.0.denominator.v())),
@*/
{
        impl_simplest_from_float!(f, f32)
    }
