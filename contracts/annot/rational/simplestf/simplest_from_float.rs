//@ item: rational/src/third_party/dashu_float.rs :: impl RBig :: simplest_from_float
pub fn simplest_from_float<R: ErrorBounds, const B: Word>(f: &FBig<R, B>) -> Option<Self>
/*@ #[ref_operand(f)]
    requires
        B >= 2,
        sf_domain(*f),      // infinite, zero, or limited precision in an EVEN base (odd bases: known finding), see lib/sf_lemmas.rs
    ensures
        // infinities have no rational value
        (f.repr.significand.v() == 0 && f.repr.exponent != 0) ==> ret is None,
        // zero
        (f.repr.significand.v() == 0 && f.repr.exponent == 0) ==> (ret matches Some(r) && r.0.numerator.v() == 0 && r.0.denominator.v() == 1),
        // otherwise: a canonical fraction that rounds to f under R, and NO fraction that rounds to f is simpler
        f.repr.significand.v() != 0 ==> (ret matches Some(r) && sf_post(R::md(), B as int, f.repr.significand.v(), f.repr.exponent as int,
            f.context.precision as int, r.0.numerator.v(), r.0.denominator.v())),
@*/
{
        /*@ broadcast use round_int_axioms; @*/
        if f.repr().is_infinite() {
            return None;
        } else if f.repr().is_zero() {
            return Some(Self::ZERO);
        }

        // calculate lower and upper bound
        let (l, r, incl_l, incl_r) = R::error_bounds(f);
        /*@ let ghost (b, sig, exp, p) = (B as int, f.repr.significand.v(), f.repr.exponent as int, f.context.precision as int);
            let ghost k = lemma_sf_pre(R::md(), *f, l, r, incl_l, incl_r); @*/
        let lb = f - l.with_precision(f.precision() + 1).unwrap();
        let rb = f + r.with_precision(f.precision() + 1).unwrap();

        // select the simplest in this range
        let left = Self::try_from(lb).unwrap();
        let right = Self::try_from(rb).unwrap();
        let mut simplest = Self::simplest_in(left.clone(), right.clone());
        /*@ let ghost s0 = simplest; @*/
        if incl_l && left.is_simpler_than(&simplest) {
            simplest = left;
        }
        if incl_r && right.is_simpler_than(&simplest) {
            simplest = right;
        }
        /*@ proof {
            lemma_sf_final(R::md(), b, sig, exp, p, k.0, k.1, incl_l, incl_r,
                lb.repr.significand.v(), lb.repr.exponent as int, rb.repr.significand.v(), rb.repr.exponent as int,
                left.0.numerator.v(), left.0.denominator.v(), right.0.numerator.v(), right.0.denominator.v(),
                s0.0.numerator.v(), s0.0.denominator.v());
        } @*/
        Some(simplest)
    }
