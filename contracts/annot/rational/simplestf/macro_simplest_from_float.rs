//@ item: rational/src/simplify.rs :: macro impl_simplest_from_float#0 :: @arm
{
        /*@ broadcast use round_int_axioms, sf_float_cmp_axioms; @*/
        /*@[f32] let ghost fm = fmt32(); let ghost fr = fields32($f);
            proof { lemma_prim_bits32($f.to_bits_spec()); vstd::arithmetic::power2::lemma2_to64(); vstd::arithmetic::power2::lemma2_to64_rest(); } @*/
        /*@[f64] let ghost fm = fmt64(); let ghost fr = fields64($f);
            proof { lemma_prim_bits64($f.to_bits_spec()); vstd::arithmetic::power2::lemma2_to64(); vstd::arithmetic::power2::lemma2_to64_rest(); } @*/
        if $f.is_infinite() || $f.is_nan() {
            return None;
        } else if $f == 0. {
            return Some(Self::ZERO);
        }

        // get the range (f - ulp/2, f + ulp/2), where ulp = 2^exp for f = man * 2^exp
        // if f is negative, then range will be flipped by simplest_in()
        let (_, exp) = $f.decode().unwrap();
        let mut est = Repr::try_from($f).unwrap();
        /*@ let ghost (estn, estd) = (est.numerator.v(), est.denominator.v());
            proof { lemma_ipow_012(2); lemma_ipow_pos(2, imax0(-(exp as int)) as nat); } @*/
        est.numerator <<= 2;
        est.denominator <<= 2;
        let quarter_ulp = IBig::ONE << exp.max(0) as usize; // in units of 1 / est.denominator
        let half_ulp = &quarter_ulp << 1;
        /*@ let ghost q = quarter_ulp.v();
            proof {
                let (n4, d4, h, p1, p2) = (est.numerator.v(), est.denominator.v(), half_ulp.v(), ipow(2, 1), ipow(2, 2));
                assert(n4 == 4 * estn && d4 == 4 * estd && h == 2 * q) by (nonlinear_arith)
                    requires n4 == estn * p2, d4 == estd * p2, h == q * p1, p1 == 2, p2 == 2 * 2;
            } @*/

        // The floats right below a power of two (in magnitude) are spaced half as wide, so on that
        // side the range ends at ulp/4. Below the smallest normal number the spacing stays the same.
        let pow2 = $f.to_bits() & ((1 << (<$t>::MANTISSA_DIGITS - 1)) - 1) == 0
            && $f != <$t>::MIN_POSITIVE
            && $f != -<$t>::MIN_POSITIVE;
        let (up, down) = match (pow2, $f > 0.) {
            (false, _) => (half_ulp.clone(), half_ulp),
            (true, true) => (half_ulp, quarter_ulp),
            (true, false) => (quarter_ulp, half_ulp),
        };
        /*@ let ghost (upv, downv) = (up.v(), down.v()); @*/
        let left = Self(
            Repr {
                numerator: &est.numerator + up,
                denominator: est.denominator.clone(),
            }
            .reduce(),
        );
        let right = Self(
            Repr {
                numerator: est.numerator - down,
                denominator: est.denominator,
            }
            .reduce(),
        );

        // find the simplest float in the range
        let mut simplest = Self::simplest_in(left.clone(), right.clone());
        /*@ let ghost s0 = simplest; @*/
        if $f.to_bits() & 1 == 0 {
            // consider boundry values when last bit is 0 (because ties to even)
            if left.is_simpler_than(&simplest) {
                simplest = left;
            }
            if right.is_simpler_than(&simplest) {
                simplest = right;
            }
        }
        /*@ proof {
            lemma_prim_final(fm, fr, estn, estd, q, pow2, fr.frac % 2 == 0, upv, downv,
                left.0.numerator.v(), left.0.denominator.v(), right.0.numerator.v(), right.0.denominator.v(),
                s0.0.numerator.v(), s0.0.denominator.v());
        } @*/
        Some(simplest)
    }
