//@ item: rational/src/convert.rs :: macro impl_conversion_from_float#0 :: impl TryFrom<$t> for Repr :: try_from
fn try_from(value: $t) -> Result<Self, Self::Error>
/*@[f32] #[hoist(Self = Repr, Error = ConversionError, Name = repr_try_from_f32)]
    ensures prim_from_post(fmt32(), fields32(value), ret), @*/
/*@[f64] #[hoist(Self = Repr, Error = ConversionError, Name = repr_try_from_f64)]
    ensures prim_from_post(fmt64(), fields64(value), ret), @*/
{
                /*@ broadcast use round_int_axioms, sf_float_cmp_axioms; @*/
                /*@ proof { vstd::arithmetic::power2::lemma2_to64(); vstd::arithmetic::power2::lemma2_to64_rest(); lemma_ipow_012(2); } @*/
                // shortcut to prevent issues in counting leading zeros
                if value == 0. {
                    return Ok(Repr::zero());
                }

                match value.decode() {
                    Ok((man, exp)) => {
                        // here we don't remove the common factor 2, because we need exact
                        // exponent value in some cases (like approx_f32 and approx_f64)
                        /*@ proof { lemma_ipow_pos(2, imax0(-(exp as int)) as nat); } @*/
                        let repr = if exp >= 0 {
                            Repr {
                                numerator: IBig::from(man) << exp as usize,
                                denominator: UBig::ONE,
                            }
                        } else {
                            let mut denominator = UBig::ZERO;
                            denominator.set_bit((-exp) as _);
                            /*@ proof { let mi = man as int; assert(mi * 1 == mi); } @*/
                            Repr {
                                numerator: IBig::from(man),
                                denominator,
                            }
                        };
                        Ok(repr)
                    }
                    Err(_) => Err(ConversionError::OutOfBounds),
                }
            }
