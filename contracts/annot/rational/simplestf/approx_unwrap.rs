//@ item: base/src/approx.rs :: impl<T, E> Approximation<T, E> :: unwrap
pub fn unwrap(self) -> T
/*@ // `total` reading: the panic on an Inexact value is unreachable
    requires self is Exact,
    ensures self == Approximation::<T, E>::Exact(ret),
@*/
{
        match self {
            Self::Exact(val) => val,
            Self::Inexact(_, _) => panic!("called `Approximation::unwrap()` on a `Inexact` value"),
        }
    }
