//@ item: float/src/round.rs :: impl ErrorBounds for mode::Away :: error_bounds
fn error_bounds<const B: Word>(
        f: &FBig<Self, B>,
    ) -> (FBig<Self, B>, FBig<Self, B>, bool, bool)
/*@ #[hoist(Self = mode::Away, Name = sf_error_bounds_away)]
    requires
        B >= 2, !(f.repr.significand.v() == 0 && f.repr.exponent != 0),
        (f.context.precision != 0 && f.repr.significand.v() != 0)
            ==> eb_domain(B as int, f.repr.significand.v(), f.repr.exponent as int, f.context.precision as int),
    ensures
        // unlimited precision: only f itself; zero: every non-zero real is rounded away from zero, so only 0 rounds to 0
        (f.context.precision == 0 || f.repr.significand.v() == 0) ==> ret.0.repr.significand.v() == 0 && ret.0.repr.exponent == 0
            && ret.1.repr.significand.v() == 0 && ret.1.repr.exponent == 0 && ret.2 && ret.3,
        // exactly the reals that round to f
        (f.context.precision != 0 && f.repr.significand.v() != 0) ==> eb_post(Mode::Away, B as int, f.repr.significand.v(), f.repr.exponent as int, f.context.precision as int,
            ret.0.repr.significand.v(), ret.0.repr.exponent as int, ret.1.repr.significand.v(), ret.1.repr.exponent as int, ret.2, ret.3),
        // (unit ratio_simplest_from_float) shape of the two bounds: ONE digit (0, 1 or B/2), precision of f (or the constant ZERO)
        (f.context.precision != 0 && f.repr.significand.v() != 0) ==> eb_shape(f.context.precision, ret.0) && eb_shape(f.context.precision, ret.1),
@*/
{
        /*@ broadcast use round_int_axioms, fbig_zero_const; @*/
        if f.precision() == 0 || f.repr().is_zero() {
            (FBig::ZERO, FBig::ZERO, true, true)
        } else {
            match f.repr().sign() {
                Sign::Positive => (ulp_towards_zero(f), FBig::ZERO, false, true),
                Sign::Negative => (FBig::ZERO, ulp_towards_zero(f), true, false),
            }
        }
        /*@ proof {
            if f.context.precision != 0 && f.repr.significand.v() != 0 {
                let (b, sig, exp, p) = (B as int, f.repr.significand.v(), f.repr.exponent as int, f.context.precision as int);
                let d = ndigits(b, sig) as int;
                let pw = eb_pow(sig);
                let g = eb_g(b, sig);
                let m = sig * ipow(b, (p - d) as nat);
                lemma_grid_sig(b, sig, (p - d) as nat);
                lemma_half_units(b, exp + d - p, pw);
                lemma_eb_table(Mode::Away, m, g);
                let t = eb_table(Mode::Away, m, g);
                assert(eb_exact(Mode::Away, m, g, t.0, t.1, ret.2, ret.3));
            }
        } @*/
    }
