//@ item: rational/src/simplify.rs :: impl Repr :: simplest_in
pub fn simplest_in(mut lower: Self, mut upper: Self) -> Self
/*@ requires
        lower.denominator.v() > 0, upper.denominator.v() > 0,
    ensures
        ret.denominator.v() >= 1,
        // equal end points (empty open interval): documented to return that number
        lower.numerator.v() * upper.denominator.v() == upper.numerator.v() * lower.denominator.v()
            ==> qeq(ret.numerator.v(), ret.denominator.v(), lower.numerator.v(), lower.denominator.v()),
        // otherwise: strictly inside, minimal denominator and minimal numerator magnitude
        lower.numerator.v() * upper.denominator.v() != upper.numerator.v() * lower.denominator.v()
            ==> is_simplest_in(lower.numerator.v(), lower.denominator.v(), upper.numerator.v(), upper.denominator.v(),
                               ret.numerator.v(), ret.denominator.v()),
@*/
{
    /*@ let ghost (ln, ld, un, ud) = (lower.numerator.v(), lower.denominator.v(), upper.numerator.v(), upper.denominator.v()); @*/
    // a zero end point takes the sign of the other end point
    let sign = if lower.numerator.is_zero() {
        upper.numerator.sign()
    } else if upper.numerator.is_zero() || lower.numerator.sign() == upper.numerator.sign() {
        lower.numerator.sign()
    } else {
        // if lower < 0 < upper, then 0 is the simplest
        /*@ proof { lemma_simplest_zero(ln, ld, un, ud); } @*/
        return Self::zero();
    };
    lower = lower.abs();
    upper = upper.abs();
    /*@ let ghost neg = sign == Sign::Negative;
        proof { lemma_sign_prod(rabs(ln), ud); lemma_sign_prod(rabs(un), ld); lemma_sign_prod(ln, ud); lemma_sign_prod(un, ld); } @*/

    match lower.cmp(&upper) {
        // swap so that lower is less than upper
        Ordering::Greater => mem::swap(&mut lower, &mut upper),
        Ordering::Equal => return sign * lower,
        Ordering::Less => {}
    }
    /*@ let ghost (a, b, c, d) = (lower.numerator.v(), lower.denominator.v(), upper.numerator.v(), upper.denominator.v());
        proof { lemma_cf_init(a, b, c, d); } @*/

    let Repr {
        numerator: mut num_l,
        denominator: den_l,
    } = lower;
    let Repr {
        numerator: mut num_r,
        denominator: den_r,
    } = upper;

    // negative values might exist during the calculation
    let (mut den_l, mut den_r) = (IBig::from(den_l), IBig::from(den_r));

    // use continued fraction expansion to find this float
    let (mut n0, mut d0) = (IBig::ONE, IBig::ZERO);
    let (mut n1, mut d1) = (IBig::ZERO, IBig::ONE);
    /*@ let ghost mut flip = false;
        let __brk0: (IBig, IBig); @*/
    let (num, den) = loop
    /*@ invariant_except_break
            cf_inv(a, b, c, d, flip, n0.v(), n1.v(), d0.v(), d1.v(), num_l.v(), den_l.v(), num_r.v(), den_r.v()),
        ensures
            cf_done(a, b, c, d, __brk0.0.v(), __brk0.1.v()),
        decreases den_l.v() + den_r.v(),
    @*/
    {
        /*@ let ghost (g_n0, g_n1, g_d0, g_d1, g_nl, g_dl, g_nr, g_dr) =
                (n0.v(), n1.v(), d0.v(), d1.v(), num_l.v(), den_l.v(), num_r.v(), den_r.v()); @*/
        let (q, r1) = num_l.div_rem(&den_l);
        /*@ proof {
            lemma_trem(g_nl, g_dl);
            lemma_cf_step(a, b, c, d, flip, g_n0, g_n1, g_d0, g_d1, g_nl, g_dl, g_nr, g_dr, q.v(), r1.v());
            flip = !flip;
        } @*/

        n1 += &q * &n0;
        mem::swap(&mut n0, &mut n1);
        d1 += &q * &d0;
        mem::swap(&mut d0, &mut d1);

        let r2 = mem::take(&mut num_r) - q * &den_r;
        num_l = mem::replace(&mut den_r, r1);
        num_r = mem::replace(&mut den_l, r2);

        if num_l < den_l {
            /*@ proof {
                lemma_cf_done(a, b, c, d, flip, n0.v(), n1.v(), d0.v(), d1.v(), num_l.v(), den_l.v(), num_r.v(), den_r.v());
            } @*/
            break (n0 + n1, d0 + d1);
        }
    };

    debug_assert!(num.sign() == den.sign());
    /*@ proof {
        let rn = if neg { -num.v() } else { num.v() };
        assert(num.v() * sgn(sign) == rn) by (nonlinear_arith) requires sgn(sign) == (if neg { -1int } else { 1int }), rn == (if neg { -num.v() } else { num.v() });
        lemma_cf_between(a, b, c, d, num.v(), den.v());
        lemma_simplest_wrap(ln, ld, un, ud, neg, a, b, c, d, num.v(), den.v(), rn);
    } @*/
    Repr {
        numerator: num.unsigned_abs() * sign,
        denominator: den.unsigned_abs(),
    }
}
