//@ item: rational/src/simplify.rs :: impl RBig :: simplest_in
pub fn simplest_in(lower: Self, upper: Self) -> Self
/*@ requires
        wf_ratio(lower.0.numerator.v(), lower.0.denominator.v()), wf_ratio(upper.0.numerator.v(), upper.0.denominator.v()),   // RBig invariant
    ensures
        wf_ratio(ret.0.numerator.v(), ret.0.denominator.v()),
        // equal end points (empty open interval): documented to return that number
        (lower.0.numerator.v() == upper.0.numerator.v() && lower.0.denominator.v() == upper.0.denominator.v())
            ==> ret.0.numerator.v() == lower.0.numerator.v() && ret.0.denominator.v() == lower.0.denominator.v(),
        // otherwise: strictly between the end points, and no fraction strictly between them has a smaller denominator
        // or a smaller numerator magnitude
        !(lower.0.numerator.v() == upper.0.numerator.v() && lower.0.denominator.v() == upper.0.denominator.v())
            ==> is_simplest_in(lower.0.numerator.v(), lower.0.denominator.v(), upper.0.numerator.v(), upper.0.denominator.v(),
                               ret.0.numerator.v(), ret.0.denominator.v()),
@*/
{
    /*@ let ghost (ln, ld, un, ud) = (lower.0.numerator.v(), lower.0.denominator.v(), upper.0.numerator.v(), upper.0.denominator.v());
        proof {
            if ln * ud == un * ld { lemma_canonical_unique(ln, ld, un, ud); }
            lemma_simplest_reduce_all(ln, ld, un, ud);
            lemma_equal_reduce_all(ln, ld);
        } @*/
    Self(Repr::simplest_in(lower.0, upper.0).reduce())
}
