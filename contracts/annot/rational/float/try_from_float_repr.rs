//@ item: rational/src/third_party/dashu_float.rs :: macro forward_conversion_to_repr#0 :: impl<const B: Word> TryFrom<FBigRepr<B>> for $t :: try_from
fn try_from(value: FBigRepr<B>) -> Result<Self, Self::Error>
/*@[rbig] #[hoist(Self = RBig, Error = ConversionError, Name = rbig_try_from_float, Generics = [const B: Word])]
    requires B >= 2, value.exp() > isize::MIN as int,
    ensures value.infinite() ==> (ret matches Err(e) && e == ConversionError::OutOfBounds),
        !value.infinite() ==> (ret matches Ok(x) && x.0.denominator.v() >= 1
            && float_val_eq(value.sig(), B as int, value.exp(), x.0.numerator.v(), x.0.denominator.v())
            && wf_ratio(x.0.numerator.v(), x.0.denominator.v())), @*/
/*@[relaxed] #[hoist(Self = Relaxed, Error = ConversionError, Name = relaxed_try_from_float, Generics = [const B: Word])]
    requires B >= 2, value.exp() > isize::MIN as int,
    ensures value.infinite() ==> (ret matches Err(e) && e == ConversionError::OutOfBounds),
        !value.infinite() ==> (ret matches Ok(x) && x.0.denominator.v() >= 1
            && float_val_eq(value.sig(), B as int, value.exp(), x.0.numerator.v(), x.0.denominator.v())), @*/
{
    /*@ proof {
        assert forall|x: Repr, y: Repr| #[trigger] red_rel(x, y) && x.denominator.v() >= 1 && y.denominator.v() >= 1
            && float_val_eq(value.sig(), B as int, value.exp(), x.numerator.v(), x.denominator.v())
            implies float_val_eq(value.sig(), B as int, value.exp(), y.numerator.v(), y.denominator.v()) by {
            lemma_float_val_red(value.sig(), B as int, value.exp(), x.numerator.v(), x.denominator.v(), y.numerator.v(), y.denominator.v());
        }
    } @*/
    Repr::try_from(value).map(|repr| /*@[rbig] -> (r: RBig)
            requires repr.denominator.v() > 0
            ensures red_rel(repr, r.0), r.0.denominator.v() >= 1, wf_ratio(r.0.numerator.v(), r.0.denominator.v()) @*/
        /*@[relaxed] -> (r: Relaxed)
            requires repr.denominator.v() > 0
            ensures red_rel(repr, r.0), r.0.denominator.v() >= 1 @*/
        $t(repr.$reduce()))
}
