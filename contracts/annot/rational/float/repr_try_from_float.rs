//@ item: rational/src/third_party/dashu_float.rs :: impl<const B: Word> TryFrom<FBigRepr<B>> for Repr :: try_from
fn try_from(value: FBigRepr<B>) -> Result<Self, Self::Error>
/*@ #[hoist(Self = Repr, Error = ConversionError, Name = repr_try_from_float, Generics = [const B: Word])]
    requires B >= 2,
        value.exp() > isize::MIN as int,   // `(-exp) as usize`; B^(2^63) is not computable anyway
    ensures float_to_repr_post(value, ret), @*/
{
    if value.is_infinite() {
        Err(ConversionError::OutOfBounds)
    } else {
        let (signif, exp) = value.into_parts();
        /*@ proof {
            if exp >= 0 { lemma_rpow_pos(B as int, exp as nat); } else { lemma_rpow_pos(B as int, (-exp) as nat); }
        } @*/
        let (numerator, denominator) = if exp >= 0 {
            (signif * UBig::from_word(B).pow(exp as usize), UBig::ONE)
        } else {
            (signif, UBig::from_word(B).pow((-exp) as usize))
        };
        /*@ proof {
            let (sg, e, nv, dv) = (value.sig(), value.exp(), numerator.v(), denominator.v());
            if e >= 0 {
                let pw = rpow(B as int, e as nat);
                assert((exp as usize) as nat == e as nat);
                assert(dv == 1 && nv == sg * pw);
                assert(nv == (sg * pw) * dv) by (nonlinear_arith) requires dv == 1, nv == sg * pw;
            } else {
                let pw = rpow(B as int, (-e) as nat);
                assert(((-exp) as usize) as nat == (-e) as nat);
                assert(nv == sg && dv == pw);
            }
            assert(float_val_eq(sg, B as int, e, nv, dv));
        } @*/
        Ok(Repr {
            numerator,
            denominator,
        })
    }
}
