//@ item: rational/src/repr.rs :: impl Repr :: neg_one
pub const fn neg_one() -> Repr
/*@ ensures ret.numerator.v() == -1, ret.denominator.v() == 1, @*/
{
    Repr {
        numerator: IBig::NEG_ONE,
        denominator: UBig::ONE,
    }
}
