//@ item: rational/src/simplify.rs :: impl RBig :: next_down
pub fn next_down(&self, limit: &UBig) -> Self
/*@ requires
        wf_ratio(self.0.numerator.v(), self.0.denominator.v()),          // RBig invariant
        limit.v() != 0,                                                   // `total` reading: limit == 0 panics (division by zero)
    ensures
        wf_ratio(ret.0.numerator.v(), ret.0.denominator.v()),
        is_next_down(self.0.numerator.v(), self.0.denominator.v(), limit.v(), ret.0.numerator.v(), ret.0.denominator.v()),
@*/
{
    /*@ broadcast use ax_rbig_sum, ax_rbig_diff, ax_int_plus_rbig; @*/
    /*@ let ghost (sn, sd, L) = (self.0.numerator.v(), self.0.denominator.v(), limit.v()); @*/
    if limit.is_zero() {
        panic_divide_by_0()
    }

    let (trunc, fract) = self.clone().split_at_point();
    /*@ let ghost (t, fnum, fd) = (trunc.v(), fract.0.numerator.v(), fract.0.denominator.v()); @*/
    let down = if self.denominator() <= limit {
        /*@ proof {
            assert(L * L >= 1) by (nonlinear_arith) requires L >= 1;
            lemma_wf_unit_frac(L * L + 1);
        } @*/
        let target = fract
            - Self(Repr {
                numerator: IBig::ONE,
                denominator: limit.sqr() + UBig::ONE,
            });
        /*@ proof {
            let (tn, td) = (target.0.numerator.v(), target.0.denominator.v());
            lemma_nudge_pre_down(fnum, fd, L, L * L + 1, tn, td);
            lemma_nudge_down_all(fnum, fd, sd, L, L * L + 1, tn, td);
        } @*/
        Self::farey_neighbors(&target, limit).0
    } else {
        /*@ proof {
            lemma_fract_nonzero(sn, sd, t, fnum);
            lemma_direct_all(fnum, sd, L);
        } @*/
        Self::farey_neighbors(&fract, limit).0
    };
    /*@ proof { assert(down_cert(fnum, sd, L, down.0.numerator.v(), down.0.denominator.v())); } @*/
    trunc + down
    /*@ proof { lemma_shift_down_cert(sn, sd, t, fnum, L, down.0.numerator.v(), down.0.denominator.v(), ret.0.numerator.v(), ret.0.denominator.v()); } @*/
}
