//@ item: rational/src/round.rs :: impl Repr :: split_at_point
pub fn split_at_point(self) -> (IBig, Self)
/*@
    requires self.denominator.v() > 0,
    ensures
        // trunc + fract == self exactly, fract is a proper fraction with the sign of self
        self.numerator.v() == ret.0.v() * self.denominator.v() + ret.1.numerator.v(),
        rabs(ret.1.numerator.v()) < self.denominator.v(),
        ret.1.numerator.v() == 0 || (ret.1.numerator.v() > 0) == (self.numerator.v() > 0),
        ret.1.denominator.v() == (if ret.1.numerator.v() == 0 { 1 } else { self.denominator.v() }),
        // a canonical input gives a canonical fractional part
        wf_ratio(self.numerator.v(), self.denominator.v()) ==> wf_ratio(ret.1.numerator.v(), ret.1.denominator.v()),
@*/
{
        let (trunc, r) = (&self.numerator).div_rem(&self.denominator);
        /*@ proof {
            let (n, d, t) = (self.numerator.v(), self.denominator.v(), trunc.v());
            lemma_trem(n, d);
            if wf_ratio(n, d) {
                lemma_addint_canonical(n, d, -t);
                assert(d * (-t) == -(t * d)) by (nonlinear_arith);
                lemma_wf_zero();
            }
        } @*/

        let fract = if r.is_zero() {
            Repr::zero()
        } else {
            // no need to reduce here
            Repr {
                numerator: r,
                denominator: self.denominator,
            }
        };
        (trunc, fract)
}
