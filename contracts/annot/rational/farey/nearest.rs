//@ item: rational/src/simplify.rs :: impl RBig :: nearest
pub fn nearest(&self, limit: &UBig) -> Approximation<Self, Sign>
/*@ requires
        wf_ratio(self.0.numerator.v(), self.0.denominator.v()),          // RBig invariant
        limit.v() != 0,                                                   // `total` reading: limit == 0 panics (division by zero)
    ensures
        match ret {
            // the number itself when its denominator already fits
            Approximation::Exact(v) => self.0.denominator.v() <= limit.v()
                && v.0.numerator.v() == self.0.numerator.v() && v.0.denominator.v() == self.0.denominator.v(),
            // otherwise the closer of the two Farey neighbours with the true sign of the error (v - self)
            Approximation::Inexact(v, s) => self.0.denominator.v() > limit.v()
                && wf_ratio(v.0.numerator.v(), v.0.denominator.v())
                && is_nearest_pick(self.0.numerator.v(), self.0.denominator.v(), limit.v(),
                                   v.0.numerator.v(), v.0.denominator.v(), s == Sign::Positive),
        },
@*/
{
    /*@ broadcast use ax_rbig_sum, ax_rbig_diff, ax_int_plus_rbig; @*/
    /*@ let ghost (sn, sd, L) = (self.0.numerator.v(), self.0.denominator.v(), limit.v()); @*/
    if limit.is_zero() {
        panic_divide_by_0()
    }

    if self.denominator() <= limit {
        return Approximation::Exact(self.clone());
    }

    let (trunc, r) = self.clone().split_at_point();
    /*@ let ghost (t, fnum) = (trunc.v(), r.0.numerator.v());
        proof { lemma_fract_nonzero(sn, sd, t, fnum); } @*/
    let (left, right) = Self::farey_neighbors(&r, limit);
    /*@ let ghost (ln, ld, rn, rd) = (left.0.numerator.v(), left.0.denominator.v(), right.0.numerator.v(), right.0.denominator.v()); @*/

    let mut mid = (&left + &right).0;
    /*@ let ghost (mn, md) = (mid.numerator.v(), mid.denominator.v()); @*/
    mid.denominator <<= 1;
    /*@ proof {
        vstd::arithmetic::power2::lemma2_to64();
        lemma_mid_test(fnum, sd, ln, ld, rn, rd, mn, md);
        assert(mid.denominator.v() == 2 * md);
        let positive = (fnum * ld - ln * sd) * rd > (rn * sd - fnum * rd) * ld;
        if positive {
            lemma_addint_canonical(rn, rd, t);
            assert(rd * t == t * rd) by (nonlinear_arith);
        } else {
            lemma_addint_canonical(ln, ld, t);
            assert(ld * t == t * ld) by (nonlinear_arith);
        }
    } @*/
    if r.0 > mid {
        Approximation::Inexact(trunc + right, Sign::Positive)
    } else {
        Approximation::Inexact(trunc + left, Sign::Negative)
    }
    /*@ proof {
        if ret is Inexact {
            let (vn, vd) = (ret->Inexact_0.0.numerator.v(), ret->Inexact_0.0.denominator.v());
            let positive = ret->Inexact_1 == Sign::Positive;
            if positive {
                lemma_int_plus_parts(t, rn, rd, vn, vd);
            } else {
                lemma_int_plus_parts(t, ln, ld, vn, vd);
            }
            lemma_nearest(sn, sd, t, fnum, L, ln, ld, rn, rd, vn, vd, positive);
        }
    } @*/
}
