//@ item: rational/src/simplify.rs :: impl RBig :: next_up
pub fn next_up(&self, limit: &UBig) -> Self
/*@ requires
        wf_ratio(self.0.numerator.v(), self.0.denominator.v()),          // RBig invariant
        limit.v() != 0,                                                   // `total` reading: limit == 0 panics (division by zero)
    ensures
        wf_ratio(ret.0.numerator.v(), ret.0.denominator.v()),
        is_next_up(self.0.numerator.v(), self.0.denominator.v(), limit.v(), ret.0.numerator.v(), ret.0.denominator.v()),
@*/
{
    /*@ broadcast use ax_rbig_sum, ax_rbig_diff, ax_int_plus_rbig; @*/
    /*@ let ghost (sn, sd, L) = (self.0.numerator.v(), self.0.denominator.v(), limit.v()); @*/
    if limit.is_zero() {
        panic_divide_by_0()
    }

    let (trunc, fract) = self.clone().split_at_point();
    /*@ let ghost (t, fnum, fd) = (trunc.v(), fract.0.numerator.v(), fract.0.denominator.v()); @*/
    let up = if self.denominator() <= limit {
        /*@ proof {
            assert(L * L >= 1) by (nonlinear_arith) requires L >= 1;
            lemma_wf_unit_frac(L * L + 1);
        } @*/
        let target = fract
            + Self(Repr {
                numerator: IBig::ONE,
                denominator: limit.sqr() + UBig::ONE,
            });
        /*@ proof {
            let (tn, td) = (target.0.numerator.v(), target.0.denominator.v());
            lemma_nudge_pre(fnum, fd, L, L * L + 1, tn, td);
            lemma_nudge_up_all(fnum, fd, sd, L, L * L + 1, tn, td);
        } @*/
        Self::farey_neighbors(&target, limit).1
    } else {
        /*@ proof {
            lemma_fract_nonzero(sn, sd, t, fnum);
            lemma_direct_all(fnum, sd, L);
        } @*/
        Self::farey_neighbors(&fract, limit).1
    };
    /*@ proof { assert(up_cert(fnum, sd, L, up.0.numerator.v(), up.0.denominator.v())); } @*/
    trunc + up
    /*@ proof { lemma_shift_up_cert(sn, sd, t, fnum, L, up.0.numerator.v(), up.0.denominator.v(), ret.0.numerator.v(), ret.0.denominator.v()); } @*/
}
