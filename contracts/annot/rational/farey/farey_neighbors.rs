//@ item: rational/src/simplify.rs :: impl RBig :: farey_neighbors
fn farey_neighbors(x: &Self, limit: &UBig) -> (Self, Self)
/*@ requires
        // the three debug assertions of the real function (it is only reachable with them, see next_up / next_down /
        // nearest) and the RBig invariant of x
        x.0.denominator.v() > limit.v(), limit.v() >= 1,
        x.0.numerator.v() != 0, rabs(x.0.numerator.v()) <= x.0.denominator.v(),
        wf_ratio(x.0.numerator.v(), x.0.denominator.v()),
    ensures
        // (lo, hi) = ret are THE neighbours of x in the Farey sequence of order `limit` (farey_nb: denominators <= limit,
        // hi.num*lo.den - lo.num*hi.den == 1, lo.den + hi.den > limit, lo < x < hi; hence both canonical and no fraction
        // with a denominator <= limit strictly between them)
        farey_nb(x.0.numerator.v(), x.0.denominator.v(), limit.v(),
                 ret.0.0.numerator.v(), ret.0.0.denominator.v(), ret.1.0.numerator.v(), ret.1.0.denominator.v()),
        // both stay inside the unit interval that contains x
        x.0.numerator.v() > 0 ==> ret.0.0.numerator.v() >= 0 && ret.1.0.numerator.v() <= ret.1.0.denominator.v(),
        x.0.numerator.v() < 0 ==> ret.1.0.numerator.v() <= 0 && ret.0.0.numerator.v() >= -ret.0.0.denominator.v(),
@*/
{
    debug_assert!(x.denominator() > limit);
    debug_assert!(!x.numerator().is_zero());
    debug_assert!(x.numerator().abs_cmp(x.denominator()).is_le());
    /*@ let ghost (xn, xd, L) = (x.0.numerator.v(), x.0.denominator.v(), limit.v());
        proof { lemma_proper(xn, xd); } @*/

    let (mut left, mut right) = match x.sign() {
        Sign::Positive => (Repr::zero(), Repr::one()),
        Sign::Negative => (Repr::neg_one(), Repr::zero()),
    };
    /*@ proof {
        let (ln, ld, rn, rd) = (left.numerator.v(), left.denominator.v(), right.numerator.v(), right.denominator.v());
        assert(ln * xd == (if xn > 0 { 0 } else { -xd }) && xn * ld == xn && xn * rd == xn
               && rn * xd == (if xn > 0 { xd } else { 0 }) && rn * ld - ln * rd == 1) by (nonlinear_arith)
            requires ld == 1, rd == 1, (xn > 0 && ln == 0 && rn == 1) || (xn < 0 && ln == -1 && rn == 0);
    } @*/

    loop
    /*@ invariant
            xn == x.0.numerator.v(), xd == x.0.denominator.v(), L == limit.v(),
            xd > L, L >= 1, wf_ratio(xn, xd),
            1 <= left.denominator.v() <= L,
            1 <= right.denominator.v() <= L,
            farey_adj(left.numerator.v(), left.denominator.v(), right.numerator.v(), right.denominator.v()),
            qle(left.numerator.v(), left.denominator.v(), xn, xd),
            qlt(xn, xd, right.numerator.v(), right.denominator.v()),
            xn > 0 ==> 0 <= left.numerator.v() <= left.denominator.v() && 0 <= right.numerator.v() <= right.denominator.v(),
            xn < 0 ==> -left.denominator.v() <= left.numerator.v() <= 0 && -right.denominator.v() <= right.numerator.v() <= 0,
        decreases 2 * L - left.denominator.v() - right.denominator.v(),
    @*/
    {
        /*@ let ghost (ln, ld, rn, rd) = (left.numerator.v(), left.denominator.v(), right.numerator.v(), right.denominator.v());
            proof {
                lemma_mediant_adj(ln, ld, rn, rd);
                lemma_adj_wf(ln, ld, ln + rn, ld + rd);
            } @*/
        let mut next = Repr {
            numerator: &left.numerator + &right.numerator,
            denominator: &left.denominator + &right.denominator,
        };

        if &next.denominator > limit {
            next = next.reduce();
            /*@ proof { lemma_reduce_canonical(ln + rn, ld + rd, next.numerator.v(), next.denominator.v()); } @*/
            if &next.denominator > limit {
                /*@ proof {
                    lemma_adj_wf(ln, ld, rn, rd);
                    lemma_le_strict(ln, ld, xn, xd);
                    lemma_farey_neighbours(ln, ld, rn, rd, L);
                } @*/
                return (Self(left), Self(right));
            }
        }

        if next > x.0 {
            right = next;
        } else {
            left = next;
        }
    }
}
