//@ item: rational/src/repr.rs :: impl Repr :: one
pub const fn one() -> Repr
/*@ ensures ret.numerator.v() == 1, ret.denominator.v() == 1, @*/
{
    Repr {
        numerator: IBig::ONE,
        denominator: UBig::ONE,
    }
}
