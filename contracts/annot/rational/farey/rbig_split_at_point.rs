//@ item: rational/src/round.rs :: impl RBig :: split_at_point
pub fn split_at_point(self) -> (IBig, Self)
/*@
    requires self.0.denominator.v() > 0,
    ensures
        self.0.numerator.v() == ret.0.v() * self.0.denominator.v() + ret.1.0.numerator.v(),
        rabs(ret.1.0.numerator.v()) < self.0.denominator.v(),
        ret.1.0.numerator.v() == 0 || (ret.1.0.numerator.v() > 0) == (self.0.numerator.v() > 0),
        ret.1.0.denominator.v() == (if ret.1.0.numerator.v() == 0 { 1 } else { self.0.denominator.v() }),
        wf_ratio(self.0.numerator.v(), self.0.denominator.v()) ==> wf_ratio(ret.1.0.numerator.v(), ret.1.0.denominator.v()),
@*/
{
        let (trunc, fract) = self.0.split_at_point();
        (trunc, Self(fract))
    }
