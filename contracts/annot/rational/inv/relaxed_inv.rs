//@ item: rational/src/div.rs :: impl Inverse for Relaxed :: inv
fn inv(self) -> Relaxed
/*@ #[hoist(Self = Relaxed, Output = Relaxed, Name = relaxed_inv)]
    requires self.0.numerator.v() != 0,   // documented: inverting zero panics (divide by zero)
    ensures repr_inv_post(self.0, ret.0), @*/
{
    Relaxed(self.0.inv())
}
