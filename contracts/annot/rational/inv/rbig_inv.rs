//@ item: rational/src/div.rs :: impl Inverse for RBig :: inv
fn inv(self) -> RBig
/*@ #[hoist(Self = RBig, Output = RBig, Name = rbig_inv)]
    requires self.0.numerator.v() != 0,   // documented: inverting zero panics (divide by zero)
    ensures repr_inv_post(self.0, ret.0), @*/
{
    RBig(self.0.inv())
}
