//@ item: base/src/sign.rs :: impl Neg for Sign :: neg
fn neg(self) -> Sign
/*@ ensures ret == sign_neg(self), @*/
{
    match self {
        Positive => Negative,
        Negative => Positive,
    }
}
