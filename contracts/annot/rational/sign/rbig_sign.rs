//@ item: rational/src/sign.rs :: impl RBig :: sign
pub const fn sign(&self) -> Sign
/*@ ensures ret == (if self.0.numerator.v() < 0 { Sign::Negative } else { Sign::Positive }), @*/
{
    self.0.numerator.sign()
}
