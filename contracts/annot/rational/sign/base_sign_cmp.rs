//@ item: base/src/sign.rs :: impl Ord for Sign :: cmp
fn cmp(&self, other: &Self) -> Ordering
/*@ ensures ret == sign_cmp(*self, *other), @*/
{
    match (self, other) {
        (Positive, Negative) => Ordering::Greater,
        (Negative, Positive) => Ordering::Less,
        _ => Ordering::Equal,
    }
}
