//@ item: base/src/sign.rs :: impl Mul<Sign> for Sign :: mul
fn mul(self, rhs: Sign) -> Sign
/*@ ensures ret == sign_mul(self, rhs), @*/
{
    match (self, rhs) {
        (Positive, Positive) => Positive,
        (Positive, Negative) => Negative,
        (Negative, Positive) => Negative,
        (Negative, Negative) => Positive,
    }
}
