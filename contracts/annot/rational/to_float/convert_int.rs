//@ item: float/src/convert.rs :: impl<R: Round> Context<R>#0 :: convert_int
pub fn convert_int<const B: Word>(&self, n: IBig) -> Rounded<FBig<R, B>>
/*@
    requires
        B >= 2,
        // resource limit: exponent overflow is a documented panic (C16), not modelled (room for the exponent of the
        // normalized integer in `Repr::new`, bit position of the split in `repr_round`)
        pos_room(ndigits(B as int, n.v()) as int),
    ensures
        // C06/C10: ONE correct rounding (mode R) of the integer n = n * B^0 to `precision` digits (0 = unlimited):
        // Exact iff n has at most `precision` significant digits, truthful flag; context kept; an exact result has a
        // non-negative exponent (lib/tf_lemmas.rs tf_conv_post)
        tf_conv_post(R::md(), B as int, n.v(), *self, ret),
@*/
{
        /*@ broadcast use round_int_axioms, ax_ndigits; @*/
        let repr = Repr::<B>::new(n, 0);
        /*@ proof {
            assert(norm_of(B as int, n.v(), 0, repr.significand.v(), repr.exponent as int));
            lemma_tf_conv_room(B as int, n.v(), repr.significand.v(), repr.exponent as int);
        } @*/
        self.repr_round(repr).map(|v| /*@ -> (r: FBig<R, B>) ensures r.repr == v, r.context == *self @*/ FBig::new(v, *self))
        /*@ proof {
            lemma_tf_convert_int(R::md(), B as int, self.precision, n.v(), repr.significand.v(), repr.exponent as int, map_repr(ret));
        } @*/
    }
