//@ item: float/src/convert.rs :: impl<R: Round> Context<R>#0 :: convert_int
pub fn convert_int<const B: Word>(&self, n: IBig) -> Rounded<FBig<R, B>>
/*@
    requires
        B >= 2,
        // exponent range: exponent + digits of the normalized integer must be representable (overflow of isize is
        // outside this contract)
        ndigits(B as int, n.v()) <= isize::MAX,
    ensures
        // C06/C10: ONE correct rounding (mode R) of the integer n = n * B^0 to `precision` digits (0 = unlimited):
        // Exact iff n has at most `precision` significant digits, truthful flag (lib/farith_lemmas.rs round_val)
        round_val(R::md(), B as int, self.precision, n.v(), 0, map_repr(ret)),
        rd_val(ret).context == *self,
        // an integer never gets a negative exponent; zero is (0, 0)
        tf_int_repr(rd_val(ret).repr),
@*/
{
        /*@ broadcast use round_int_axioms, ax_ndigits; @*/
        let repr = Repr::<B>::new(n, 0);
        /*@ proof {
            assert(norm_of(B as int, n.v(), 0, repr.significand.v(), repr.exponent as int));
            lemma_norm_of(B as int, n.v(), 0, repr.significand.v(), repr.exponent as int);
        } @*/
        self.repr_round(repr).map(|v| /*@ -> (r: FBig<R, B>) ensures r.repr == v, r.context == *self @*/ FBig::new(v, *self))
        /*@ proof {
            lemma_tf_convert_int(R::md(), B as int, self.precision, n.v(), repr.significand.v(), repr.exponent as int, map_repr(ret));
        } @*/
    }
