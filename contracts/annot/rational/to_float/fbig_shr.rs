//@ item: float/src/shift.rs :: impl<R: Round, const B: Word> Shr<isize> for FBig<R, B> :: shr
fn shr(mut self, rhs: isize) -> Self::Output
/*@ #[hoist(Self = (FBig<R, B>), Output = (FBig<R, B>), Name = fbig_shr, Generics = [R: Round, const B: Word])] @*/
/*@
    requires
        // finite operand (documented panic otherwise); the new exponent must be representable (overflow of isize is
        // outside this contract)
        fbig_shr_req(self, rhs),
    ensures
        // exact division by B^rhs: same significand, exponent - rhs (zero stays zero), same context
        ret == fbig_shr_spec(self, rhs),
@*/
{
        assert_finite(&self.repr);
        if !self.repr.is_zero() {
            self.repr.exponent -= rhs;
        }
        self
    }
