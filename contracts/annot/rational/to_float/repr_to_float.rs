//@ item: rational/src/third_party/dashu_float.rs :: impl Repr :: to_float
fn to_float<R: Round, const B: Word>(&self, precision: usize) -> Rounded<FBig<R, B>>
/*@
    requires
        // B >= 2, precision > 0 (`assert!`), denominator > 0 (type invariant), machine ranges, and -- KNOWN FINDING --
        // not (odd base and HalfEven/HalfAway): see lib/tf_lemmas.rs tf_to_float_req
        tf_to_float_req(R::md(), B, precision, self.numerator.v(), self.denominator.v()),
    ensures
        // C06: the exact rational numerator/denominator rounded ONCE to `precision` digits in base B by mode R;
        // Exact means the float equals the rational, Inexact(adj) means it differs and adj names the direction
        ratio_round_once(R::md(), B as int, precision as nat, self.numerator.v(), self.denominator.v(), map_repr(ret)),
        // Exact iff the rational is a float of at most `precision` digits
        (ret is Exact) == ratio_representable(B as int, precision as nat, self.numerator.v(), self.denominator.v()),
        rd_val(ret).context.precision == precision,
@*/
{
        /*@ broadcast use round_int_axioms, ax_ndigits, fbig_zero_const; @*/
        /*@ let ghost (b, p, N, D) = (B as int, precision as nat, self.numerator.v(), self.denominator.v()); @*/
        assert!(precision > 0);

        if self.numerator.is_zero() {
            /*@ proof { lemma_tf_zero(b, p, D); } @*/
            return FBig::ZERO.with_precision(precision);
        }

        let base = UBig::from_word(B);
        let num_digits = self.numerator.ilog(&base);
        let den_digits = self.denominator.ilog(&base);
        /*@ proof {
            lemma_tf_ilog_digits(b, N, num_digits as nat);
            lemma_tf_ilog_digits(b, D, den_digits as nat);
        } @*/

        // the quotient gets at least one digit more than the precision
        let shift;
        let (q, r) = if num_digits > precision + den_digits {
            shift = 0;
            /*@ proof { assert(ipow(b, 0) == 1); assert(N * 1 == N); } @*/
            (&self.numerator).div_rem(&self.denominator)
        } else {
            shift = (precision + 1 + den_digits) - num_digits;
            if B == 2 {
                (&self.numerator << shift).div_rem(&self.denominator)
            } else {
                (&self.numerator * base.pow(shift)).div_rem(&self.denominator)
            }
        };
        /*@ let ghost (q0, r0) = (q.v(), r.v());
            proof {
                assert(is_trunc_divrem(N * ipow(b, shift as nat), D, q0, r0));
                lemma_tf_quot(b, p, N, D, num_digits as nat, den_digits as nat, shift as nat, q0, r0);
            } @*/

        // append a sticky digit for the remainder (it is below the guard digit, so it is never taken
        // for a tie), then the only rounding happens in convert_int
        let q = q * base + r.signum();
        /*@ let ghost sh1: isize = (shift + 1) as isize;
            proof { assert(q.v() == q0 * b + sgn3i(r0)); } @*/
        let context = Context::<R>::new(precision);
        context
            .convert_int(q)
            .map(|f| /*@ -> (o: FBig<R, B>) requires tf_int_repr(f.repr) ensures o == fbig_shr_spec(f, sh1) @*/ f >> (shift as isize + 1))
        /*@ proof {
            lemma_tf_post::<B>(R::md(), b, precision, N, D, shift as nat, q0, r0, map_repr(ret));
        } @*/
    }
