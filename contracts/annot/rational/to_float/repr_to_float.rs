//@ item: rational/src/third_party/dashu_float.rs :: impl Repr :: to_float
fn to_float<R: Round, const B: Word>(&self, precision: usize) -> Rounded<FBig<R, B>>
/*@
    requires
        // B >= 2, precision > 0 (`assert!`), denominator > 0 (type invariant), resource limits (precision and digit
        // counts below 2^56): lib/tf_lemmas.rs tf_to_float_req.  Every base >= 2, all six modes.
        tf_to_float_req(B, precision, self.numerator.v(), self.denominator.v()),
    ensures
        // C06: the exact rational numerator/denominator rounded ONCE to `precision` digits in base B by mode R;
        // Exact means the float equals the rational, Inexact(adj) means it differs and adj names the direction
        ratio_round_once(R::md(), B as int, precision as nat, self.numerator.v(), self.denominator.v(), map_repr(ret)),
        // Exact iff the rational is a float of at most `precision` digits
        (ret is Exact) == ratio_representable(B as int, precision as nat, self.numerator.v(), self.denominator.v()),
        rd_val(ret).context.precision == precision,
@*/
{
        /*@ hide(ipow); hide(round_val); hide(round_once); hide(round_def);   // only moved around here (the lemmas do the unfolding) @*/
        /*@ broadcast use round_int_axioms, ax_ndigits, fbig_zero_const; @*/
        /*@ let ghost (b, p, N, D) = (B as int, precision as nat, self.numerator.v(), self.denominator.v()); @*/
        assert!(precision > 0);

        if self.numerator.is_zero() {
            /*@ proof { lemma_tf_zero::<B>(R::md(), b, precision, D); } @*/
            return FBig::ZERO.with_precision(precision);
        }

        let base = UBig::from_word(B);
        let num_digits = self.numerator.ilog(&base);
        let den_digits = self.denominator.ilog(&base);
        /*@ proof {
            lemma_tf_ilog_digits(b, N, num_digits as nat);
            lemma_tf_ilog_digits(b, D, den_digits as nat);
        } @*/

        let shift;
        let (q, r) = if num_digits >= precision + den_digits {
            shift = 0;
            /*@ proof { lemma_tf_ipow1(b); assert(N * 1 == N); } @*/
            (&self.numerator).div_rem(&self.denominator)
        } else {
            shift = (precision + den_digits) - num_digits;
            if B == 2 {
                (&self.numerator << shift).div_rem(&self.denominator)
            } else {
                (&self.numerator * base.pow(shift)).div_rem(&self.denominator)
            }
        };
        /*@ let ghost (q0, r0, X) = (q.v(), r.v(), N * ipow(b, shift as nat));
            proof {
                assert(is_trunc_divrem(X, D, q0, r0));
                lemma_tf_quot(b, p, N, D, num_digits as nat, den_digits as nat, shift as nat, q0, r0);
                lemma_tf_ilog_nd(b, q0);
            } @*/

        // the quotient has at least `precision` digits, the digits beyond the precision are moved
        // to the remainder, so that the number is rounded only once
        let extra = q.ilog(&base) + 1 - precision;
        /*@ let ghost Dn = D * ipow(b, extra as nat);
            proof { assert(ndigits(b, q0) == p + extra); } @*/
        let (q, r, den) = if extra > 0 {
            let scale = base.pow(extra);
            /*@ proof { lemma_ipow_pos(b, extra as nat); } @*/
            let (hi, lo) = q.div_rem(&scale);
            /*@ proof { lemma_tf_split(b, p, X, D, q0, r0, extra as nat, hi.v(), lo.v()); } @*/
            (hi, lo * &self.denominator + r, &self.denominator * scale)
        } else {
            /*@ proof {
                lemma_tf_ipow1(b);
                assert(is_trunc_divrem(q0, ipow(b, 0), q0, 0));
                lemma_tf_split(b, p, X, D, q0, r0, 0, q0, 0);
                assert(0 * D + r0 == r0);
                assert(D * 1 == D);
            } @*/
            (q, r, self.denominator.clone())
        };
        /*@ let ghost (hi, r2) = (q.v(), r.v());
            proof {
                assert(den.v() == Dn);
                assert(is_trunc_divrem(X, Dn, hi, r2));
                assert(ipow(b, (p - 1) as nat) <= iabs(hi) && iabs(hi) < ipow(b, p));
            } @*/
        let rounded = if r.is_zero() {
            Approximation::Exact(q)
        } else {
            let adjust = R::round_ratio(&q, r, den.as_ibig());
            Approximation::Inexact(q + adjust, adjust)
        };
        /*@ let ghost rg = rounded;
            let ghost mm = rd_val0(rounded).v();
            let ghost sh: isize = (shift as isize - extra as isize) as isize;
            proof {
                assert(tf_rounded(R::md(), X, Dn, hi, r2, rounded));
                lemma_tf_conv_exact::<B>(R::md(), b, precision, mm);
            } @*/

        let context = Context::<R>::new(precision);
        rounded
            .and_then(|n| /*@ -> (o: Rounded<FBig<R, B>>) requires pos_room(ndigits(b, n.v()) as int) ensures tf_conv_post(R::md(), b, n.v(), context, o) @*/ context.convert_int(n))
            .map(|f| /*@ -> (o: FBig<R, B>) requires tf_int_repr(f.repr), f.repr.exponent <= precision + 1 ensures o == fbig_shr_spec(f, sh) @*/ f >> (shift as isize - extra as isize))
        /*@ proof {
            lemma_tf_post::<B>(R::md(), b, precision, N, D, shift as nat, extra as nat, hi, r2, rg, map_repr(ret));
        } @*/
    }
