//@ item: rational/src/third_party/dashu_float.rs :: impl RBig :: to_float
pub fn to_float<R: Round, const B: Word>(&self, precision: usize) -> Rounded<FBig<R, B>>
/*@
    requires tf_to_float_req(B, precision, self.0.numerator.v(), self.0.denominator.v()),    // see lib/tf_lemmas.rs
    ensures
        // C06: the rational rounded ONCE to `precision` digits in base B by mode R, truthful flag
        ratio_round_once(R::md(), B as int, precision as nat, self.0.numerator.v(), self.0.denominator.v(), map_repr(ret)),
        (ret is Exact) == ratio_representable(B as int, precision as nat, self.0.numerator.v(), self.0.denominator.v()),
        rd_val(ret).context.precision == precision,
@*/
{
        self.0.to_float(precision)
    }
