//@ item: rational/src/div.rs :: macro impl_div_with_relaxed#0 :: @arm
/*@ requires b.v() > 0, d.v() > 0, c.v() != 0, ra.v() == a.v(), rb.v() == b.v(), rc.v() == c.v(), rd.v() == d.v(), @*/
/*@ ensures ret.0.numerator.v() * (b.v() * c.v()) == (a.v() * d.v()) * ret.0.denominator.v(),
        ret.0.denominator.v() >= 1, @*/
{
        if $rc.is_zero() {
            panic_divide_by_0()
        }

        let _unused = ($ra, $rb, $rd);
        /*@ proof {
            assert(b.v() * rabs(c.v()) >= 1) by (nonlinear_arith) requires b.v() >= 1, rabs(c.v()) >= 1;
        } @*/
        Relaxed::from_parts($a * $d * $c.sign(), $b * $c.unsigned_abs())
        /*@ proof {
            let s: int = if c.v() < 0 { -1 } else { 1 };
            lemma_relaxed_div_value(a.v(), b.v(), c.v(), d.v(), s, ret.0.numerator.v(), ret.0.denominator.v());
        } @*/
}
