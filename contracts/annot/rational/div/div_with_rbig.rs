//@ item: rational/src/div.rs :: macro impl_div_with_rbig#0 :: @arm
/*@ requires b.v() > 0, d.v() > 0, c.v() != 0, ra.v() == a.v(), rb.v() == b.v(), rc.v() == c.v(), rd.v() == d.v(), @*/
/*@ ensures ret.0.numerator.v() * (b.v() * c.v()) == (a.v() * d.v()) * ret.0.denominator.v(),
        ret.0.denominator.v() >= 1,
        wf_ratio(a.v(), b.v()) && wf_ratio(c.v(), d.v()) ==> wf_ratio(ret.0.numerator.v(), ret.0.denominator.v()), @*/
{
        if $rc.is_zero() {
            panic_divide_by_0()
        }

        // a/b / c/d = (ad)/gcd(a,c)/gcd(b,d)/(bc)
        let g_ac = $ra.gcd($rc);
        let g_bd = $rb.gcd($rd);
        /*@ proof {
            lemma_tdiv_exact(a.v(), g_ac.v()); lemma_exact_div(rabs(c.v()), g_ac.v());
            lemma_exact_div(d.v(), g_bd.v()); lemma_exact_div(b.v(), g_bd.v());
            let a1 = tdiv(a.v(), g_ac.v()); let c1 = rabs(c.v()) / g_ac.v();
            let d1 = d.v() / g_bd.v(); let b1 = b.v() / g_bd.v();
            let s: int = if c.v() < 0 { -1 } else { 1 };
            assert(c.v() == s * (c1 * g_ac.v())) by (nonlinear_arith) requires rabs(c.v()) == c1 * g_ac.v(), s == (if c.v() < 0 { -1int } else { 1int });
            lemma_div_value(a.v(), b.v(), c.v(), d.v(), g_ac.v(), g_bd.v(), a1, b1, c1, d1, s);
            assert(b1 * c1 >= 1) by (nonlinear_arith) requires b1 >= 1, c1 >= 1;
            if wf_ratio(a.v(), b.v()) && wf_ratio(c.v(), d.v()) {
                // (a/b) / (c/d) = a/b * (d/|c|) up to the sign of c; d/|c| is in lowest terms as well
                lemma_gcd_sym(1, rabs(c.v()), d.v());
                lemma_gcd_sym(g_bd.v(), b.v(), d.v());
                lemma_gcd_sym(g_bd.v(), d.v(), b.v());
                lemma_mul_canonical(a.v(), b.v(), d.v(), rabs(c.v()), g_ac.v(), g_bd.v(), a1, b1, d1, c1);
                lemma_wf_sign(a1 * d1, b1 * c1, s);
            }
        } @*/
        RBig(Repr {
            numerator: ($a / &g_ac) * ($d / &g_bd) * $c.sign(),
            denominator: ($b / g_bd) * ($c.unsigned_abs() / g_ac),
        })
}
