//@ item: rational/src/div.rs :: impl Inverse for Repr :: inv
fn inv(self) -> Repr
/*@ #[hoist(Self = Repr)]
    requires self.numerator.v() != 0,   // documented: inverting zero panics (divide by zero)
    ensures ret.denominator.v() >= 1,
        ret.numerator.v() * self.numerator.v() == ret.denominator.v() * self.denominator.v(),
        self.denominator.v() >= 1 && wf_ratio(self.numerator.v(), self.denominator.v())
            ==> wf_ratio(ret.numerator.v(), ret.denominator.v()), @*/
{
    if self.numerator.is_zero() {
        panic_divide_by_0()
    }
    let (sign, num) = self.numerator.into_parts();
    /*@ proof {
        let s = sgn(sign);
        assert((s * self.denominator.v()) * self.numerator.v() == rabs(self.numerator.v()) * self.denominator.v())
            by (nonlinear_arith) requires (s == 1 && rabs(self.numerator.v()) == self.numerator.v())
                || (s == -1 && rabs(self.numerator.v()) == -self.numerator.v());
        if self.denominator.v() >= 1 && wf_ratio(self.numerator.v(), self.denominator.v()) && self.numerator.v() != 0 {
            lemma_gcd_sym(1, rabs(self.numerator.v()), self.denominator.v());
            assert(rabs(s * self.denominator.v()) == self.denominator.v()) by (nonlinear_arith)
                requires s == 1 || s == -1, self.denominator.v() >= 1;
        }
    } @*/
    Repr {
        numerator: IBig::from_parts(sign, self.denominator),
        denominator: num,
    }
}
