//@ item: rational/src/rbig.rs :: impl RBig :: numerator
pub fn numerator(&self) -> &IBig
/*@ ensures *ret == self.0.numerator, @*/
{
    &self.0.numerator
}
