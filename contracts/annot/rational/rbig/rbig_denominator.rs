//@ item: rational/src/rbig.rs :: impl RBig :: denominator
pub fn denominator(&self) -> &UBig
/*@ ensures *ret == self.0.denominator, @*/
{
    &self.0.denominator
}
