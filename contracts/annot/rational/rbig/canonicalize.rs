//@ item: rational/src/rbig.rs :: impl Relaxed :: canonicalize
pub fn canonicalize(self) -> RBig
/*@ requires self.0.denominator.v() > 0,
    ensures ret.0.numerator.v() * self.0.denominator.v() == self.0.numerator.v() * ret.0.denominator.v(),
        wf_ratio(ret.0.numerator.v(), ret.0.denominator.v()), @*/
{
    RBig(self.0.reduce())
}
