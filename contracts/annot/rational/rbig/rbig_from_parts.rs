//@ item: rational/src/rbig.rs :: impl RBig :: from_parts
pub fn from_parts(numerator: IBig, denominator: UBig) -> Self
/*@ requires denominator.v() != 0,
    ensures ret.0.numerator.v() * denominator.v() == numerator.v() * ret.0.denominator.v(),
        wf_ratio(ret.0.numerator.v(), ret.0.denominator.v()), @*/
{
    if denominator.is_zero() {
        panic_divide_by_0()
    }

    Self(
        Repr {
            numerator,
            denominator,
        }
        .reduce(),
    )
}
