//@ item: rational/src/rbig.rs :: impl Relaxed :: from_parts
pub fn from_parts(numerator: IBig, denominator: UBig) -> Self
/*@ requires denominator.v() != 0,
    ensures ret.0.numerator.v() * denominator.v() == numerator.v() * ret.0.denominator.v(),
        ret.0.denominator.v() >= 1, @*/
{
    if denominator.is_zero() {
        panic_divide_by_0();
    }

    Self(
        Repr {
            numerator,
            denominator,
        }
        .reduce2(),
    )
}
