//@ item: rational/src/cmp.rs :: mod with_float :: repr_cmp_fbig
pub(crate) fn repr_cmp_fbig<const B: Word, const ABS: bool>(
    lhs: &Repr,
    rhs: &FloatRepr<B>,
) -> Ordering
/*@
    requires lhs.denominator.v() >= 1, B >= 2,
        // resource: an exact comparison with |exponent| * log2(B) >= 2^57 bits cannot exist in memory (the shift amount
        // `exp * B.trailing_zeros()` is computed in usize)
        -0x0100_0000_0000_0000 <= rhs.ex() <= 0x0100_0000_0000_0000,
    ensures
        // C14: the ordering of the exact values (of their magnitudes if ABS); an infinite rhs is beyond every rational
        rhs.sig() == 0 && rhs.ex() != 0 ==> ret == (if ABS || rhs.ex() > 0 { Ordering::Less } else { Ordering::Greater }),
        !(rhs.sig() == 0 && rhs.ex() != 0) && !ABS ==>
            ret == cmp_ratio_float(lhs.numerator.v(), lhs.denominator.v(), rhs.sig(), B as int, rhs.ex()),
        !(rhs.sig() == 0 && rhs.ex() != 0) && ABS ==>
            ret == cmp_ratio_float(rabs(lhs.numerator.v()), lhs.denominator.v(), rabs(rhs.sig()), B as int, rhs.ex()),
@*/
{
    /*@
    let ghost n = lhs.numerator.v(); let ghost d = lhs.denominator.v(); let ghost s = rhs.sig(); let ghost e = rhs.ex();
    let ghost b = B as int;
    let ghost ae: nat = (if e >= 0 { e } else { -e }) as nat;
    let ghost p = ipw(b, ae);
    proof { lemma_ipw_pos(b, ae); }
    @*/
    // case 1: compare with inf
    if rhs.is_infinite() {
        return match ABS || rhs.exponent() > 0 {
            true => Ordering::Less,
            false => Ordering::Greater,
        };
    }

    // case 2: compare sign
    /*@ proof { lemma_cmpf_signs(n, d, s, p); } @*/
    let sign = if ABS {
        Sign::Positive
    } else {
        match (lhs.numerator.sign(), rhs.significand().sign()) {
            (Sign::Positive, Sign::Positive) => Sign::Positive,
            (Sign::Positive, Sign::Negative) => return Ordering::Greater,
            (Sign::Negative, Sign::Positive) => return Ordering::Less,
            (Sign::Negative, Sign::Negative) => Sign::Negative,
        }
    };

    // case 3: compare log2 estimations
    let (lhs_lo, lhs_hi) = lhs.log2_bounds();
    let (rhs_lo, rhs_hi) = rhs.log2_bounds();
    if lhs_lo > rhs_hi {
        /*@ proof {
            ax_est_gt(lhs_lo, rhs_hi, rabs(n), d, fl_num(s, b, e), fl_den(b, e));
            lemma_cmpf_filter(n, d, s, p, e >= 0, ABS, true);
        } @*/
        return sign * Ordering::Greater;
    }
    if lhs_hi < rhs_lo {
        /*@ proof {
            ax_est_lt(lhs_hi, rhs_lo, rabs(n), d, fl_num(s, b, e), fl_den(b, e));
            lemma_cmpf_filter(n, d, s, p, e >= 0, ABS, false);
        } @*/
        return sign * Ordering::Less;
    }

    let rhs_exp = rhs.exponent();

    // case 4: compare the exact values
    let (mut lhs, mut rhs) = (lhs.numerator.clone(), rhs.significand() * &lhs.denominator);
    if rhs_exp < 0 {
        let exp = -rhs_exp as usize;
        if B.is_power_of_two() {
            /*@ proof { ax_pot(B); lemma_ipw_pot(tz_of(B) as nat, ae); lemma_cmpf_shift_fits(ae as int, tz_of(B)); } @*/
            lhs <<= exp * B.trailing_zeros() as usize;
        } else {
            lhs *= UBig::from_word(B).pow(exp);
        }
    } else {
        let exp = rhs_exp as usize;
        if B.is_power_of_two() {
            /*@ proof { ax_pot(B); lemma_ipw_pot(tz_of(B) as nat, ae); lemma_cmpf_shift_fits(ae as int, tz_of(B)); } @*/
            rhs <<= exp * B.trailing_zeros() as usize;
        } else {
            rhs *= UBig::from_word(B).pow(exp);
        }
    }
    /*@ proof {
        assert(s * d * p == (s * d) * p);
        lemma_cmpf_abs(n, d, s, p);
    } @*/

    if ABS {
        lhs.abs_cmp(&rhs)
    } else {
        lhs.cmp(&rhs)
    }
}
