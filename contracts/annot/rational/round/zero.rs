//@ item: rational/src/repr.rs :: impl Repr :: zero
pub const fn zero() -> Repr
/*@
    ensures ret.numerator.v() == 0, ret.denominator.v() == 1,
@*/
{
        /*@ broadcast use round_int_axioms, round_ratio_axioms; @*/
        Repr {
            numerator: IBig::ZERO,
            denominator: UBig::ONE,
        }
}
