//@ item: rational/src/round.rs :: impl Repr :: round
pub fn round(&self) -> IBig
/*@
    requires self.denominator.v() > 0,
    // nearest integer, ties away from zero
    ensures round_def(Mode::HalfAway, self.numerator.v(), self.denominator.v(), ret.v()),
@*/
{
        /*@ broadcast use round_int_axioms, round_ratio_axioms; @*/
        let (mut q, r) = (&self.numerator).div_rem(&self.denominator);
        /*@ proof { lemma_divrem_facts(self.numerator.v(), self.denominator.v(), q.v(), r.v()); lemma_ipow2_1(); } @*/
        if (r.unsigned_abs() << 1) >= self.denominator {
            match self.numerator.sign() {
                Sign::Positive => q += IBig::ONE,
                Sign::Negative => q -= IBig::ONE,
            }
        }
        q
}
