//@ item: rational/src/round.rs :: impl RBig :: ceil
pub fn ceil(&self) -> IBig
/*@
    requires self.0.denominator.v() > 0,
    // least integer >= self
    ensures (ret.v() - 1) * self.0.denominator.v() < self.0.numerator.v() <= ret.v() * self.0.denominator.v(),
        round_def(Mode::Up, self.0.numerator.v(), self.0.denominator.v(), ret.v()),
@*/
{
        self.0.ceil()
    }
