//@ item: rational/src/round.rs :: impl Repr :: floor
pub fn floor(&self) -> IBig
/*@
    requires self.denominator.v() > 0,
    // greatest integer <= numerator/denominator
    ensures ret.v() * self.denominator.v() <= self.numerator.v() < (ret.v() + 1) * self.denominator.v(),
        round_def(Mode::Down, self.numerator.v(), self.denominator.v(), ret.v()),
@*/
{
        /*@ broadcast use round_int_axioms, round_ratio_axioms; @*/
        let (mut q, r) = (&self.numerator).div_rem(&self.denominator);
        /*@ proof { lemma_qd(q.v(), self.denominator.v()); } @*/
        if r < IBig::ZERO {
            q -= IBig::ONE;
        }
        q
}
