//@ item: rational/src/round.rs :: impl Relaxed :: trunc
pub fn trunc(&self) -> IBig
/*@
    requires self.0.denominator.v() > 0,
    // integer neighbour towards zero
    ensures round_def(Mode::Zero, self.0.numerator.v(), self.0.denominator.v(), ret.v()),
@*/
{
        self.0.trunc()
    }
