//@ item: rational/src/round.rs :: impl Relaxed :: fract
pub fn fract(&self) -> Self
/*@
    requires self.0.denominator.v() > 0,
    ensures
        proper_fract(ret.0.numerator.v(), ret.0.denominator.v(), self.0.numerator.v()),
        // trunc(self) + fract(self) == self
        forall|t: int| #[trigger] round_def(Mode::Zero, self.0.numerator.v(), self.0.denominator.v(), t) ==>
            frac_sum_eq(t, ret.0.numerator.v(), ret.0.denominator.v(), self.0.numerator.v(), self.0.denominator.v()),
@*/
{
        Self(self.0.fract())
    }
