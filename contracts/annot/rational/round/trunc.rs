//@ item: rational/src/round.rs :: impl Repr :: trunc
pub fn trunc(&self) -> IBig
/*@
    requires self.denominator.v() > 0,
    // the integer neighbour of numerator/denominator in the direction of zero
    ensures round_def(Mode::Zero, self.numerator.v(), self.denominator.v(), ret.v()),
@*/
{
        /*@ broadcast use round_int_axioms, round_ratio_axioms; @*/
        /*@ proof { lemma_divrem_facts(self.numerator.v(), self.denominator.v(),
                        tdiv(self.numerator.v(), self.denominator.v()), tmod(self.numerator.v(), self.denominator.v())); } @*/
        (&self.numerator) / (&self.denominator)
}
