//@ item: rational/src/round.rs :: impl RBig :: round
pub fn round(&self) -> IBig
/*@
    requires self.0.denominator.v() > 0,
    // nearest integer, ties away from zero
    ensures round_def(Mode::HalfAway, self.0.numerator.v(), self.0.denominator.v(), ret.v()),
@*/
{
        self.0.round()
    }
