//@ item: rational/src/round.rs :: impl Repr :: split_at_point
pub fn split_at_point(self) -> (IBig, Self)
/*@
    requires self.denominator.v() > 0,
    ensures
        // ret.0 = trunc(self): the integer neighbour towards zero
        round_def(Mode::Zero, self.numerator.v(), self.denominator.v(), ret.0.v()),
        // ret.1 = fract(self): proper fraction with the sign of self, and trunc + fract == self
        proper_fract(ret.1.numerator.v(), ret.1.denominator.v(), self.numerator.v()),
        frac_sum_eq(ret.0.v(), ret.1.numerator.v(), ret.1.denominator.v(), self.numerator.v(), self.denominator.v()),
@*/
{
        /*@ broadcast use round_int_axioms, round_ratio_axioms; @*/
        let (trunc, r) = (&self.numerator).div_rem(&self.denominator);
        /*@ proof {
            lemma_divrem_facts(self.numerator.v(), self.denominator.v(), trunc.v(), r.v());
            lemma_frac_sum(self.numerator.v(), self.denominator.v(), trunc.v(), r.v());
        } @*/

        let fract = if r.is_zero() {
            Repr::zero()
        } else {
            // no need to reduce here
            Repr {
                numerator: r,
                denominator: self.denominator,
            }
        };
        (trunc, fract)
}
