//@ item: rational/src/round.rs :: impl RBig :: floor
pub fn floor(&self) -> IBig
/*@
    requires self.0.denominator.v() > 0,
    // greatest integer <= self
    ensures ret.v() * self.0.denominator.v() <= self.0.numerator.v() < (ret.v() + 1) * self.0.denominator.v(),
        round_def(Mode::Down, self.0.numerator.v(), self.0.denominator.v(), ret.v()),
@*/
{
        self.0.floor()
    }
