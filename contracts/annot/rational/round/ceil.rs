//@ item: rational/src/round.rs :: impl Repr :: ceil
pub fn ceil(&self) -> IBig
/*@
    requires self.denominator.v() > 0,
    // least integer >= numerator/denominator
    ensures (ret.v() - 1) * self.denominator.v() < self.numerator.v() <= ret.v() * self.denominator.v(),
        round_def(Mode::Up, self.numerator.v(), self.denominator.v(), ret.v()),
@*/
{
        /*@ broadcast use round_int_axioms, round_ratio_axioms; @*/
        let (mut q, r) = (&self.numerator).div_rem(&self.denominator);
        /*@ proof { lemma_qd(q.v(), self.denominator.v()); } @*/
        if r > IBig::ZERO {
            q += IBig::ONE;
        }
        q
}
