//@ item: rational/src/round.rs :: impl RBig :: split_at_point
pub fn split_at_point(self) -> (IBig, Self)
/*@
    requires self.0.denominator.v() > 0,
    ensures
        round_def(Mode::Zero, self.0.numerator.v(), self.0.denominator.v(), ret.0.v()),
        proper_fract(ret.1.0.numerator.v(), ret.1.0.denominator.v(), self.0.numerator.v()),
        // trunc + fract == self
        frac_sum_eq(ret.0.v(), ret.1.0.numerator.v(), ret.1.0.denominator.v(), self.0.numerator.v(), self.0.denominator.v()),
@*/
{
        let (trunc, fract) = self.0.split_at_point();
        (trunc, Self(fract))
    }
