//@ item: rational/src/round.rs :: impl Repr :: fract
pub fn fract(&self) -> Self
/*@
    requires self.denominator.v() > 0,
    ensures
        // a proper fraction with the sign of self (or zero) ...
        proper_fract(ret.numerator.v(), ret.denominator.v(), self.numerator.v()),
        // ... such that trunc(self) + fract(self) == self: for THE integer t that `trunc` is specified to return
        forall|t: int| #[trigger] round_def(Mode::Zero, self.numerator.v(), self.denominator.v(), t) ==>
            frac_sum_eq(t, ret.numerator.v(), ret.denominator.v(), self.numerator.v(), self.denominator.v()),
@*/
{
        /*@ broadcast use round_int_axioms, round_ratio_axioms; @*/
        /*@ proof {
            let (n, d) = (self.numerator.v(), self.denominator.v());
            lemma_frac_sum(n, d, tdiv(n, d), tmod(n, d));
            assert forall|t: int| #[trigger] round_def(Mode::Zero, n, d, t) implies t == tdiv(n, d) by {
                lemma_trunc_unique(n, d, tdiv(n, d), tmod(n, d), t);
            }
        } @*/
        let r = (&self.numerator) % (&self.denominator);
        if r.is_zero() {
            Repr::zero()
        } else {
            Repr {
                numerator: r,
                denominator: self.denominator.clone(),
            }
        }
}
