//@ item: rational/src/simplify.rs :: impl RBig :: is_simpler_than
pub fn is_simpler_than(&self, other: &Self) -> bool
/*@ ensures ret == simpler(self.0.denominator.v(), self.0.numerator.v(),
                           other.0.denominator.v(), other.0.numerator.v()), @*/
{
    self.denominator()
        .cmp(other.denominator())
        .then_with(|| /*@ -> (r: Ordering)
            ensures r == cmp_int(rabs(self.0.numerator.v()), rabs(other.0.numerator.v())) @*/
            self.numerator().abs_cmp(other.numerator()))
        .then_with(|| /*@ -> (r: Ordering)
            ensures r == sign_cmp(if other.0.numerator.v() < 0 { Sign::Negative } else { Sign::Positive },
                                  if self.0.numerator.v() < 0 { Sign::Negative } else { Sign::Positive }) @*/
            other.sign().cmp(&self.sign()))
        .is_lt()
}
