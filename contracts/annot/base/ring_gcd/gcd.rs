//@ item: base/src/ring/gcd.rs :: macro impl_gcd_ops_prim#0 :: impl Gcd for $U :: gcd
fn gcd(self, rhs: Self) -> Self::Output
/*@[u64] #[hoist(Self = u64, Output = u64, Name = gcd_u64)] @*/
/*@[u128] #[hoist(Self = u128, Output = u128, Name = gcd_u128)] @*/
/*@[u32] #[hoist(Self = u32, Output = u32, Name = gcd_u32)] @*/
/*@
    requires self != 0 || rhs != 0,        // gcd(0, 0) is the documented panic
    ensures // C12: ret is the non-negative GREATEST common divisor (by divisibility)
        ret >= 1, (self as int) % (ret as int) == 0, (rhs as int) % (ret as int) == 0,
        forall|d: int| d >= 1 && #[trigger] ((self as int) % d) == 0 && (rhs as int) % d == 0 ==> (ret as int) % d == 0,
@*/
{
    let (mut a, mut b) = (self, rhs);
    if a == 0 || b == 0 {
        if a == 0 && b == 0 {
            panic_gcd_0_0();
        }
        /*@[u64] proof { lemma_br_or_zero64(a, b); } @*/
        /*@[u128] proof { lemma_br_or_zero128(a, b); } @*/
        /*@[u32] proof { lemma_br_or_zero32(a, b); } @*/
        /*@ proof { lemma_br_is_gcd_zero((a | b) as int); } @*/
        return a | b;
    }

    // find common factors of 2
    /*@[u64] proof { lemma_br_tz64_or(a, b); lemma_br_tz64(a); lemma_br_tz64(b); }
        let ghost ti = br_tz64(a) as nat; let ghost tj = br_tz64(b) as nat; let ghost ts = br_tz64(a | b) as nat; @*/
    /*@[u128] proof { lemma_br_tz128_or(a, b); lemma_br_tz128(a); lemma_br_tz128(b); }
        let ghost ti = br_tz128(a) as nat; let ghost tj = br_tz128(b) as nat; let ghost ts = br_tz128(a | b) as nat; @*/
    /*@[u32] proof { lemma_br_tz32_or(a, b); lemma_br_tz32(a); lemma_br_tz32(b); }
        let ghost ti = br_tz32(a) as nat; let ghost tj = br_tz32(b) as nat; let ghost ts = br_tz32(a | b) as nat; @*/
    let shift = (a | b).trailing_zeros();
    a >>= a.trailing_zeros();
    b >>= b.trailing_zeros();
    /*@ let ghost ao = a; let ghost bo = b;
        let ghost gg = br_gcd(ao as nat, bo as nat) as int;
        proof { lemma_br_gcd_lift(self as int, rhs as int, ao as int, bo as int, ti, tj, ts, gg); } @*/

    // reduce by division if the difference between operands is large
    let (za, zb) = (a.leading_zeros(), b.leading_zeros());
    const GCD_BIT_DIFF_THRESHOLD: u32 = 3;
    if za > zb.wrapping_add(GCD_BIT_DIFF_THRESHOLD) {
        let r = b % a;
        if r == 0 {
            /*@ proof { lemma_br_gcd_divides(a as int, b as int); } @*/
            /*@[u64] proof { lemma_br_shl_le64(a, shift, self); } @*/
            /*@[u128] proof { lemma_br_shl_le128(a, shift, self); } @*/
            /*@[u32] proof { lemma_br_shl_le32(a, shift, self); } @*/
            return a << shift;
        } else {
            /*@[u64] proof { lemma_br_tz64(r); lemma_br_gcd_rem_odd(a as int, b as int, r as int, (r >> br_tz64(r)) as int, br_tz64(r) as nat); } @*/
            /*@[u128] proof { lemma_br_tz128(r); lemma_br_gcd_rem_odd(a as int, b as int, r as int, (r >> br_tz128(r)) as int, br_tz128(r) as nat); } @*/
            /*@[u32] proof { lemma_br_tz32(r); lemma_br_gcd_rem_odd(a as int, b as int, r as int, (r >> br_tz32(r)) as int, br_tz32(r) as nat); } @*/
            b = r >> r.trailing_zeros();
        }
    } else if zb > za.wrapping_add(4) {
        let r = a % b;
        if r == 0 {
            /*@ proof { lemma_br_gcd_divides(b as int, a as int); } @*/
            /*@[u64] proof { lemma_br_shl_le64(b, shift, self); } @*/
            /*@[u128] proof { lemma_br_shl_le128(b, shift, self); } @*/
            /*@[u32] proof { lemma_br_shl_le32(b, shift, self); } @*/
            return b << shift;
        } else {
            /*@[u64] proof { lemma_br_tz64(r); lemma_br_gcd_rem_odd(b as int, a as int, r as int, (r >> br_tz64(r)) as int, br_tz64(r) as nat); } @*/
            /*@[u128] proof { lemma_br_tz128(r); lemma_br_gcd_rem_odd(b as int, a as int, r as int, (r >> br_tz128(r)) as int, br_tz128(r) as nat); } @*/
            /*@[u32] proof { lemma_br_tz32(r); lemma_br_gcd_rem_odd(b as int, a as int, r as int, (r >> br_tz32(r)) as int, br_tz32(r) as nat); } @*/
            a = r >> r.trailing_zeros();
        }
    }

    // forward to the gcd algorithm
    /*@ proof { assert(br_gcd(a as nat, b as nat) == gg); } @*/
    /*@[u64] proof { lemma_br_shl_le64(gg as u64, shift, self); } @*/
    /*@[u128] proof { lemma_br_shl_le128(gg as u128, shift, self); } @*/
    /*@[u32] proof { lemma_br_shl_le32(gg as u32, shift, self); } @*/
    a.unchecked_gcd(b) << shift
}
