//@ item: base/src/ring/gcd.rs :: macro impl_unchecked_gcd_ops_prim#1 :: impl UncheckedExtendedGcd for $U :: unchecked_gcd_ext
fn unchecked_gcd_ext(self, rhs: $U) -> ($U, $I, $I)
/*@[u128] #[hoist(Self = u128, Name = unchecked_gcd_ext_u128)] @*/
/*@[u64d] #[hoist(Self = u64, Name = unchecked_gcd_ext_u64d)] @*/
/*@
    requires // "(2) the first operand is larger than the second" (debug assertion); rhs != 0 from the call sites (gcd_ext passes
             // the smaller NON-ZERO operand): `last_r / r` would panic otherwise
        self >= rhs, rhs >= 1,
    ensures br_ext_post(self as int, rhs as int, ret.0 as int, ret.1 as int, ret.2 as int),
@*/
{
    /*@[u128] proof { lemma_br_or_zero128(self, rhs); } @*/
    /*@[u64d] proof { lemma_br_or_zero64(self, rhs); } @*/
    debug_assert!(self | rhs > 0);
    debug_assert!(self >= rhs);

    // keep r = self * s + rhs * t
    let (mut last_r, mut r) = (self, rhs);
    let (mut last_s, mut s) = (1, 0);
    let (mut last_t, mut t) = (0, 1);
    /*@ let ghost mut even = true; proof { lemma_br_ext_init(self as int, rhs as int); } @*/
    /*@[u128] proof { lemma_br_or_hi128(r, r); } @*/
    /*@[u64d] proof { lemma_br_or_hi64(r, r); } @*/

    // normal euclidean algorithm on double width integers
    while r >> <$HU>::BITS > 0
    /*@
        invariant br_ext_inv(self as int, rhs as int, last_r as int, r as int, last_s as int, s as int, last_t as int, t as int, even),
        decreases r
    @*/
    {
        /*@ proof { lemma_br_ext_quo(last_r as int, r as int); } @*/
        let quo = last_r / r;
        let new_r = last_r - quo * r;
        if new_r == 0 {
            /*@ proof { lemma_br_ext_fin(self as int, rhs as int, last_r as int, r as int, last_s as int, s as int, last_t as int, t as int, even, quo as int); } @*/
            return (r, s, t);
        }
        /*@ proof {
            lemma_br_ext_step(self as int, rhs as int, last_r as int, r as int, last_s as int, s as int, last_t as int, t as int, even,
                quo as int, new_r as int, last_s as int - (quo as int) * (s as int), last_t as int - (quo as int) * (t as int));
            even = !even;
        } @*/
        last_r = replace(&mut r, new_r);
        let new_s = last_s - quo as $I * s;
        last_s = replace(&mut s, new_s);
        let new_t = last_t - quo as $I * t;
        last_t = replace(&mut t, new_t);
        /*@[u128] proof { lemma_br_or_hi128(r, r); } @*/
        /*@[u64d] proof { lemma_br_or_hi64(r, r); } @*/
    }

    // reduce double by single
    /*@[u128] proof { lemma_br_or_hi128(r, r); } @*/
    /*@[u64d] proof { lemma_br_or_hi64(r, r); } @*/
    let r = r as $HU;
    /*@ proof { lemma_br_ext_quo(last_r as int, r as int); } @*/
    let quo = last_r / r as $U;
    let new_r = (last_r - quo * r as $U) as $HU;
    if new_r == 0 {
        /*@ proof { lemma_br_ext_fin(self as int, rhs as int, last_r as int, r as int, last_s as int, s as int, last_t as int, t as int, even, quo as int); } @*/
        return (r as $U, s, t);
    }
    /*@ proof {
        lemma_br_ext_step(self as int, rhs as int, last_r as int, r as int, last_s as int, s as int, last_t as int, t as int, even,
            quo as int, new_r as int, last_s as int - (quo as int) * (s as int), last_t as int - (quo as int) * (t as int));
    } @*/
    let new_s = last_s - quo as $I * s;
    let new_t = last_t - quo as $I * t;

    // forward to single width int
    let (g, cx, cy) = r.unchecked_gcd_ext(new_r);
    let (cx, cy) = (cx as $I, cy as $I);
    /*@ proof {
        lemma_br_ext_compose(self as int, rhs as int, r as int, new_r as int, s as int, new_s as int, t as int, new_t as int, !even,
            g as int, cx as int, cy as int);
    } @*/
    (g as $U, &cx * s + &cy * new_s, cx * t + cy * new_t)
}
