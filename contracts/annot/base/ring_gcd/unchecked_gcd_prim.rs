//@ item: base/src/ring/gcd.rs :: macro impl_unchecked_gcd_ops_prim#0 :: impl UncheckedGcd for $U :: unchecked_gcd
fn unchecked_gcd(self, rhs: Self) -> Self::Output
/*@[u64] #[hoist(Self = u64, Output = u64, Name = unchecked_gcd_u64)] @*/
/*@[u32] #[hoist(Self = u32, Output = u32, Name = unchecked_gcd_u32)] @*/
/*@
    requires // "(3) the factor 2 is removed from the operands" (the second debug assertion): both operands are odd
        (self as int) % 2 == 1, (rhs as int) % 2 == 1,
    ensures // the binary gcd computes THE greatest common divisor (br_gcd is Euclid's recursion: lemma_br_gcd_props)
        ret as int == br_gcd(self as nat, rhs as nat), ret >= 1,
@*/
{
    /*@[u64] proof { lemma_br_or_zero64(self, rhs); } @*/
    /*@[u32] proof { lemma_br_or_zero32(self, rhs); } @*/
    debug_assert!(self | rhs > 0);
    debug_assert!(self & rhs & 1 > 0);

    let (mut a, mut b) = (self, rhs);

    while a != b
    /*@
        invariant (a as int) % 2 == 1, (b as int) % 2 == 1,
            br_gcd(a as nat, b as nat) == br_gcd(self as nat, rhs as nat),
        decreases a + b
    @*/
    {
        if a > b {
            /*@ let ghost a0 = a; @*/
            a -= b;
            /*@ let ghost a1 = a; @*/
            /*@[u64] proof { lemma_br_tz64(a); } @*/
            /*@[u32] proof { lemma_br_tz32(a); } @*/
            /*@ proof { lemma_br_gcd_step(a0 as int, b as int, 1, a as int); } @*/
            a >>= a.trailing_zeros();
            /*@[u64] proof { lemma_br_gcd_strip_pow2(a as int, br_tz64(a1) as nat, b as int); } @*/
            /*@[u32] proof { lemma_br_gcd_strip_pow2(a as int, br_tz32(a1) as nat, b as int); } @*/
        } else {
            /*@ let ghost b0 = b; @*/
            b -= a;
            /*@ let ghost b1 = b; @*/
            /*@[u64] proof { lemma_br_tz64(b); } @*/
            /*@[u32] proof { lemma_br_tz32(b); } @*/
            /*@ proof {
                lemma_br_gcd_step(b0 as int, a as int, 1, b as int);
                lemma_br_gcd_sym(b0 as int, a as int);
            } @*/
            b >>= b.trailing_zeros();
            /*@[u64] proof { lemma_br_gcd_strip_pow2(b as int, br_tz64(b1) as nat, a as int); } @*/
            /*@[u32] proof { lemma_br_gcd_strip_pow2(b as int, br_tz32(b1) as nat, a as int); } @*/
            /*@ proof { lemma_br_gcd_sym(b as int, a as int); } @*/
        }
    }
    /*@ proof { lemma_br_div_self(a as int); lemma_br_gcd_divides(a as int, a as int); } @*/
    a
}
