//@ item: base/src/ring/gcd.rs :: macro impl_gcd_ops_prim#0 :: impl ExtendedGcd for $U :: gcd_ext
fn gcd_ext(self, rhs: $U) -> ($U, $I, $I)
/*@[u64] #[hoist(Self = u64, Name = gcd_ext_u64)] @*/
/*@[u128] #[hoist(Self = u128, Name = gcd_ext_u128)] @*/
/*@[u32] #[hoist(Self = u32, Name = gcd_ext_u32)] @*/
/*@
    requires self != 0 || rhs != 0,        // gcd_ext(0, 0) is the documented panic
    ensures // C12: (g, s, t) with s*a + t*b == g, g the non-negative GREATEST common divisor (by divisibility) ...
        ret.0 >= 1, (self as int) % (ret.0 as int) == 0, (rhs as int) % (ret.0 as int) == 0,
        (ret.1 as int) * (self as int) + (ret.2 as int) * (rhs as int) == ret.0 as int,
        forall|d: int| d >= 1 && #[trigger] ((self as int) % d) == 0 && (rhs as int) % d == 0 ==> (ret.0 as int) % d == 0,
        // ... and the size of the cofactors the callers in dashu-int rely on
        self > 0 && rhs > 0 ==> -(rhs as int) <= ret.1 as int <= rhs as int && -(self as int) <= ret.2 as int <= self as int,
        self > rhs && rhs > 0 ==> -(self as int) < ret.2 as int && (ret.2 as int) < self as int,
@*/
{
    let (mut a, mut b) = (self, rhs);

    // check if zero inputs
    /*@ proof { if a == 0 || b == 0 { lemma_br_is_gcd_zero((if a == 0 { b } else { a }) as int); } } @*/
    match (a == 0, b == 0) {
        (true, true) => panic_gcd_0_0(),
        (true, false) => return (b, 0, 1),
        (false, true) => return (a, 1, 0),
        _ => {}
    }

    // find common factors of 2
    /*@[u64] proof { lemma_br_tz64_or(a, b); lemma_br_shr_exact64(a, br_tz64(a | b)); lemma_br_shr_exact64(b, br_tz64(a | b)); } @*/
    /*@[u128] proof { lemma_br_tz128_or(a, b); lemma_br_shr_exact128(a, br_tz128(a | b)); lemma_br_shr_exact128(b, br_tz128(a | b)); } @*/
    /*@[u32] proof { lemma_br_tz32_or(a, b); lemma_br_shr_exact32(a, br_tz32(a | b)); lemma_br_shr_exact32(b, br_tz32(a | b)); } @*/
    let shift = (a | b).trailing_zeros();
    a >>= shift;
    b >>= shift;
    /*@ let ghost p = pow2(shift as nat) as int; @*/

    // make sure a is larger than b
    if a >= b {
        if b == 1 {
            // this shortcut eliminates the overflow when a = <$T>::MAX and b = 1
            /*@ proof {
                lemma_br_div_self(1);
                lemma_br_ext_lift(self as int, rhs as int, a as int, 1, p, 1, 0, 1);
            } @*/
            /*@[u64] proof { lemma_br_shl_le64(1, shift, rhs); } @*/
            /*@[u128] proof { lemma_br_shl_le128(1, shift, rhs); } @*/
            /*@[u32] proof { lemma_br_shl_le32(1, shift, rhs); } @*/
            (1 << shift, 0, 1)
        } else {
            // forward to the gcd algorithm
            let (g, ca, cb) = a.unchecked_gcd_ext(b);
            /*@ proof { lemma_br_ext_lift(self as int, rhs as int, a as int, b as int, p, g as int, ca as int, cb as int); } @*/
            /*@[u64] proof { lemma_br_shl_le64(g, shift, rhs); } @*/
            /*@[u128] proof { lemma_br_shl_le128(g, shift, rhs); } @*/
            /*@[u32] proof { lemma_br_shl_le32(g, shift, rhs); } @*/
            (g << shift, ca, cb)
        }
    } else {
        if a == 1 {
            /*@ proof {
                lemma_br_div_self(1);
                lemma_br_ext_lift(self as int, rhs as int, 1, b as int, p, 1, 1, 0);
            } @*/
            /*@[u64] proof { lemma_br_shl_le64(1, shift, rhs); } @*/
            /*@[u128] proof { lemma_br_shl_le128(1, shift, rhs); } @*/
            /*@[u32] proof { lemma_br_shl_le32(1, shift, rhs); } @*/
            (1 << shift, 1, 0)
        } else {
            let (g, cb, ca) = b.unchecked_gcd_ext(a);
            /*@ proof { lemma_br_ext_lift(self as int, rhs as int, a as int, b as int, p, g as int, ca as int, cb as int); } @*/
            /*@[u64] proof { lemma_br_shl_le64(g, shift, rhs); } @*/
            /*@[u128] proof { lemma_br_shl_le128(g, shift, rhs); } @*/
            /*@[u32] proof { lemma_br_shl_le32(g, shift, rhs); } @*/
            (g << shift, ca, cb)
        }
    }
}
