//@ item: base/src/ring/gcd.rs :: macro impl_unchecked_gcd_ops_prim#0 :: impl UncheckedExtendedGcd for $U :: unchecked_gcd_ext
fn unchecked_gcd_ext(self, rhs: $U) -> ($U, $I, $I)
/*@[u64] #[hoist(Self = u64, Name = unchecked_gcd_ext_u64)] @*/
/*@[u32] #[hoist(Self = u32, Name = unchecked_gcd_ext_u32)] @*/
/*@
    requires // "(2) the first operand is larger than the second" (debug assertion); rhs != 0 from the call sites (gcd_ext passes
             // the smaller NON-ZERO operand, the double-width routine a non-zero remainder): `last_r / r` would panic otherwise
        self >= rhs, rhs >= 1,
    ensures br_ext_post(self as int, rhs as int, ret.0 as int, ret.1 as int, ret.2 as int),
@*/
{
    /*@[u64] proof { lemma_br_or_zero64(self, rhs); } @*/
    /*@[u32] proof { lemma_br_or_zero32(self, rhs); } @*/
    debug_assert!(self | rhs > 0);
    debug_assert!(self >= rhs);

    // keep r = self * s + rhs * t
    let (mut last_r, mut r) = (self, rhs);
    let (mut last_s, mut s) = (1, 0);
    let (mut last_t, mut t) = (0, 1);
    /*@ let ghost mut even = true; proof { lemma_br_ext_init(self as int, rhs as int); } @*/

    loop
    /*@
        invariant br_ext_inv(self as int, rhs as int, last_r as int, r as int, last_s as int, s as int, last_t as int, t as int, even),
        decreases r
    @*/
    {
        /*@ proof { lemma_br_ext_quo(last_r as int, r as int); } @*/
        let quo = last_r / r;
        let new_r = last_r - quo * r;
        if new_r == 0 {
            /*@ proof { lemma_br_ext_fin(self as int, rhs as int, last_r as int, r as int, last_s as int, s as int, last_t as int, t as int, even, quo as int); } @*/
            return (r, s, t)
        }
        /*@ proof {
            lemma_br_ext_step(self as int, rhs as int, last_r as int, r as int, last_s as int, s as int, last_t as int, t as int, even,
                quo as int, new_r as int, last_s as int - (quo as int) * (s as int), last_t as int - (quo as int) * (t as int));
            even = !even;
        } @*/
        last_r = replace(&mut r, new_r);
        let new_s = last_s - quo as $I * s;
        last_s = replace(&mut s, new_s);
        let new_t = last_t - quo as $I * t;
        last_t = replace(&mut t, new_t);
    }

}
