//@ item: base/src/ring/gcd.rs :: macro impl_unchecked_gcd_ops_prim#1 :: impl UncheckedGcd for $U :: unchecked_gcd
fn unchecked_gcd(self, rhs: Self) -> Self::Output
/*@[u128] #[hoist(Self = u128, Output = u128, Name = unchecked_gcd_u128)] @*/
/*@[u64d] #[hoist(Self = u64, Output = u64, Name = unchecked_gcd_u64d)] @*/
/*@
    requires // "(3) the factor 2 is removed from the operands" (the second debug assertion): both operands are odd
        (self as int) % 2 == 1, (rhs as int) % 2 == 1,
    ensures ret as int == br_gcd(self as nat, rhs as nat), ret >= 1,
@*/
{
    /*@[u128] proof { lemma_br_or_zero128(self, rhs); } @*/
    /*@[u64d] proof { lemma_br_or_zero64(self, rhs); } @*/
    debug_assert!(self | rhs > 0);
    debug_assert!(self & rhs & 1 > 0);
    let (mut a, mut b) = (self, rhs);

    // the binary GCD algorithm
    while a != b
    /*@
        invariant (a as int) % 2 == 1, (b as int) % 2 == 1,
            br_gcd(a as nat, b as nat) == br_gcd(self as nat, rhs as nat),
        decreases a + b
    @*/
    {
        /*@[u128] proof { lemma_br_or_hi128(a, b); } @*/
        /*@[u64d] proof { lemma_br_or_hi64(a, b); } @*/
        if (a | b) >> <$HU>::BITS == 0 {
            // forward to single width int
            return (a as $HU).unchecked_gcd(b as $HU) as $U;
        }
        if a > b {
            /*@ let ghost a0 = a; @*/
            a -= b;
            /*@ let ghost a1 = a; @*/
            /*@[u128] proof { lemma_br_tz128(a); } @*/
            /*@[u64d] proof { lemma_br_tz64(a); } @*/
            /*@ proof { lemma_br_gcd_step(a0 as int, b as int, 1, a as int); } @*/
            a >>= a.trailing_zeros();
            /*@[u128] proof { lemma_br_gcd_strip_pow2(a as int, br_tz128(a1) as nat, b as int); } @*/
            /*@[u64d] proof { lemma_br_gcd_strip_pow2(a as int, br_tz64(a1) as nat, b as int); } @*/
        } else {
            /*@ let ghost b0 = b; @*/
            b -= a;
            /*@ let ghost b1 = b; @*/
            /*@[u128] proof { lemma_br_tz128(b); } @*/
            /*@[u64d] proof { lemma_br_tz64(b); } @*/
            /*@ proof {
                lemma_br_gcd_step(b0 as int, a as int, 1, b as int);
                lemma_br_gcd_sym(b0 as int, a as int);
            } @*/
            b >>= b.trailing_zeros();
            /*@[u128] proof { lemma_br_gcd_strip_pow2(b as int, br_tz128(b1) as nat, a as int); } @*/
            /*@[u64d] proof { lemma_br_gcd_strip_pow2(b as int, br_tz64(b1) as nat, a as int); } @*/
            /*@ proof { lemma_br_gcd_sym(b as int, a as int); } @*/
        }
    }
    /*@ proof { lemma_br_div_self(a as int); lemma_br_gcd_divides(a as int, a as int); } @*/
    a
}
