//@ item: base/src/approx.rs :: impl<T, E> Approximation<T, E> :: map
pub fn map<U, F>(self, f: F) -> Approximation<U, E>
    where
        F: FnOnce(T) -> U,
/*@
    requires
        f.requires((rd_val0(self),)),
    ensures
        match (self, ret) {
            (Approximation::Exact(v), Approximation::Exact(u)) => f.ensures((v,), u),
            (Approximation::Inexact(v, e), Approximation::Inexact(u, e2)) => e2 == e && f.ensures((v,), u),
            _ => false,
        },
@*/
{
        match self {
            Self::Exact(v) => Approximation::Exact(f(v)),
            Self::Inexact(v, e) => Approximation::Inexact(f(v), e),
        }
    }
