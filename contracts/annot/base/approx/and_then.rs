//@ item: base/src/approx.rs :: impl<T, E> Approximation<T, E> :: and_then
pub fn and_then<U, F>(self, f: F) -> Approximation<U, E>
    where
        F: FnOnce(T) -> Approximation<U, E>,
/*@
    requires
        f.requires((rd_val0(self),)),
    ensures
        // the closure ran once on the value; an exact first stage passes the second result through, an inexact
        // first stage keeps its own error unless the second stage reports one
        exists|o: Approximation<U, E>| #[trigger] f.ensures((rd_val0(self),), o) && ret == and_then_spec(self, o),
@*/
{
        match self {
            Self::Exact(v) => match f(v) {
                Approximation::Exact(v2) => Approximation::Exact(v2),
                Approximation::Inexact(v2, e) => Approximation::Inexact(v2, e),
            },
            Self::Inexact(v, e) => match f(v) {
                Approximation::Exact(v2) => Approximation::Inexact(v2, e),
                Approximation::Inexact(v2, e2) => Approximation::Inexact(v2, e2),
            },
        }
    }
