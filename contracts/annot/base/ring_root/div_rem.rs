//@ item: base/src/ring/div_rem.rs :: macro impl_div_rem_ops_prim#0 :: impl DivRem for $T :: div_rem
fn div_rem(self, rhs: $T) -> ($T, $T)
/*@[u64] #[hoist(Self = u64, Name = div_rem_u64)] @*/
/*@[u128] #[hoist(Self = u128, Name = div_rem_u128)] @*/
/*@[u32] #[hoist(Self = u32, Name = div_rem_u32)] @*/
/*@
    requires rhs != 0,      // division by zero panics
    ensures ret.0 as int == (self as int) / (rhs as int), ret.1 as int == (self as int) % (rhs as int),
@*/
{
    (self / rhs, self % rhs)
}
