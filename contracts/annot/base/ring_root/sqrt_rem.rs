//@ item: base/src/ring/root.rs :: macro impl_rootrem_using_normalized#0 :: impl SquareRootRem for $t :: sqrt_rem
fn sqrt_rem(&self) -> ($half, $t)
/*@[u64] #[hoist(Self = u64, Name = sqrt_rem_u64)] @*/
/*@[u128] #[hoist(Self = u128, Name = sqrt_rem_u128)] @*/
/*@[u32] #[hoist(Self = u32, Name = sqrt_rem_u32)] @*/
/*@
    ensures // C12: (s, r) with s the square root truncated toward zero and r == value - s^2:  s*s + r == n, r <= 2s  (<==> s*s <= n < (s+1)*(s+1))
        (ret.0 as int) * (ret.0 as int) + ret.1 as int == *self as int, ret.1 as int <= 2 * (ret.0 as int),
@*/
{
    if *self == 0 {
        /*@ proof { assert(0int * 0int + 0 == 0) by (nonlinear_arith); } @*/
        return (0, 0);
    }

    // normalize the input and call the normalized subroutine
    /*@ let ghost x = *self as int; @*/
    /*@[u64] let ghost z = br_lz64(*self) as nat; let ghost w = 64nat;
        proof { lemma_br_lz64(*self); lemma_br_pow2_64(); lemma_br_sqrt_norm(x, z, (br_lz64(*self) & !1u32) as nat, w);
                lemma_br_shl64(*self, br_lz64(*self) & !1u32); } @*/
    /*@[u32] let ghost z = br_lz32(*self) as nat; let ghost w = 32nat;
        proof { lemma_br_lz32(*self); vstd::arithmetic::power2::lemma2_to64(); lemma_br_sqrt_norm(x, z, (br_lz32(*self) & !1u32) as nat, w);
                lemma_br_shl32(*self, br_lz32(*self) & !1u32); } @*/
    /*@[u128] let ghost z = br_lz128(*self) as nat; let ghost w = 128nat;
        proof { lemma_br_lz128(*self); lemma_br_pow2_64(); lemma_br_sqrt_norm(x, z, (br_lz128(*self) & !1u32) as nat, w);
                lemma_br_shl128(*self, br_lz128(*self) & !1u32); } @*/
    let shift = self.leading_zeros() & !1; // make sure shift is divisible by 2
    let (mut root, mut rem) = (self << shift).normalized_sqrt_rem();
    /*@ let ghost rs = root as int; let ghost k = (shift / 2) as nat; @*/
    if shift != 0 {
        /*@[u64] proof { lemma_br_shr32(root, shift / 2); } @*/
        /*@[u128] proof { lemma_br_shr64(root, shift / 2); } @*/
        /*@[u32] proof { lemma_br_shr16(root, shift / 2); } @*/
        root >>= shift / 2;
        /*@ proof {
            lemma_br_sqrt_rem_iff(x * pow2(shift as nat), rs, rem as int);
            lemma_br_sqrt_unshift(x, x * pow2(shift as nat), k, rs, root as int);
            lemma_br_ipow2(root as int);
        } @*/
        rem = self - (root as $t).pow(2);
        /*@ proof { lemma_br_sqrt_rem_iff(x, root as int, rem as int);
            assert((root as int) * (root as int) + rem as int == x);
            assert(rem as int <= 2 * (root as int)); } @*/
    }
    /*@ proof { if shift == 0 { assert(x * pow2(0) == x); assert((root as int) * (root as int) + rem as int == x); } } @*/
    (root, rem)
}
