//@ item: base/src/ring/root.rs :: wmul32_hi
fn wmul32_hi(a: u32, b: u32) -> u32
/*@
    ensures ret as int == ((a as int) * (b as int)) / 0x1_0000_0000,
@*/
{
    /*@ proof {
        assert((a as int) * (b as int) <= 0xffff_ffff * 0xffff_ffff) by (nonlinear_arith) requires 0 <= a as int <= 0xffff_ffff, 0 <= b as int <= 0xffff_ffff;
        let x = ((a as u64) * (b as u64)) as u64;
        assert((x >> 32u32) == x / 0x1_0000_0000 && (x >> 32u32) <= 0xffff_ffff) by (bit_vector);
    } @*/
    (((a as u64) * (b as u64)) >> 32) as u32
}
