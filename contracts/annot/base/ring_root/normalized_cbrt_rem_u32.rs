//@ item: base/src/ring/root.rs :: impl NormalizedRootRem for u32 :: normalized_cbrt_rem
fn normalized_cbrt_rem(self) -> (u16, u32)
/*@ #[hoist(Self = u32, Name = normalized_cbrt_rem_u32)] @*/
/*@
    requires self >= 0x2000_0000,          // "normalized": one of the highest three bits set (the debug assertion)
    ensures // C12: cube root truncated toward zero and value - root^3
        br_cube(ret.0 as int) + ret.1 as int == self as int, ret.1 as int <= 3 * ((ret.0 as int) * (ret.0 as int)) + 3 * (ret.0 as int),
@*/
{
    /*@ let ghost m = self as int;
        proof {
            lemma_br_cb32_bits(self);
            assert(vstd::std_specs::bits::u32_leading_zeros(self) <= 2);   // the debug assertion below (drop_asserts=0: exec call)
            axiom_br_cb32_estimate(m);
        } @*/
    debug_assert!(self.leading_zeros() <= 2);

    let adjust = self.leading_zeros() < 2;
    let n16 = (self >> (16 + 3 * adjust as u8)) as u16;
    /*@ proof {
        assert(adjust == br_cb32_adj(m));
        assert(n16 as int == br_cb32_n16(m));
        lemma_br_cb32_shifts(0, 0, n16, 0);
        lemma_br_cb_or100(RCBRT_TAB[((n16 >> 8u32) as int) - 8], 0x100 | RCBRT_TAB[((n16 >> 8u32) as int) - 8] as u32);
        // the real table equals the pinned one the estimate axiom speaks about (an obligation of THIS function)
        assert(RCBRT_TAB[(n16 >> 8u32) as int - 8] as int == br_rcbrt_tab()[(n16 >> 8u32) as int - 8]);
    } @*/
    let r = 0x100 | RCBRT_TAB[(n16 >> 8) as usize - 8] as u32; // 9 bits
    /*@ proof {
        assert(r as int == br_cb32_r0(m));
        let r0 = r as int;
        assert(r0 * r0 * r0 < 0x800_0000) by (nonlinear_arith) requires 0 <= r0 < 512;
        assert(r0 * r0 >= 0 && r0 * r0 < 0x4_0000) by (nonlinear_arith) requires 0 <= r0 < 512;
        lemma_br_cb32_shifts((r * r * r) as u32, 0, n16, 0);
    } @*/

    let r3 = (r * r * r) >> 11;
    /*@ proof { assert(r3 as int == br_cb32_r3(m)); } @*/
    let t = (4 << 11) - wmul16_hi(n16, r3 as u16); // 13 bits
    /*@ proof {
        assert(t as int == 0x2000 - br_cb32_w(m));
        let r0 = r as int; let ti = t as int;
        assert(0 <= r0 * ti && r0 * ti <= 512 * 0x2000) by (nonlinear_arith) requires 0 <= r0 < 512, 0 <= ti <= 0x2000;
        lemma_br_cb32_shifts(0, 0, n16, ((r * t as u32) / 3) as u32);
    } @*/
    let mut r = ((r * t as u32 / 3) >> 4) as u16; // 16 bits
    /*@ proof { assert(r as int == br_cb32_r1(m)); lemma_br_cb32_shifts(0, r, n16, 0); } @*/
    r >>= adjust as u8; // recover the adjustment if needed

    let r = r - 10; // to make sure c is an underestimate
    /*@ proof {
        assert(r as int == br_cb32_r(m));
        lemma_br_cb32_shifts(0, wmul16_hi_spec(r, wmul16_hi_spec(r, (self >> 16u32) as u16)), n16, 0);
    } @*/
    let mut c = wmul16_hi(r, wmul16_hi(r, (self >> 16) as u16)) >> 2;
    /*@ proof { assert(c as int == br_cb32_c(m)); } @*/

    let e = fix_cbrt_error!(u32, self, c);
    /*@ proof { lemma_br_cbrt_rem_iff(self as int, c as int, e as int); lemma_br_cube_succ(c as int); } @*/
    (c, e)
}
