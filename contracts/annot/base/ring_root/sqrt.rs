//@ item: base/src/math/root.rs :: macro impl_root_using_rootrem#0 :: impl SquareRoot for $t :: sqrt
fn sqrt(&self) -> $half
/*@[u64] #[hoist(Self = u64, Name = sqrt_u64)] @*/
/*@[u128] #[hoist(Self = u128, Name = sqrt_u128)] @*/
/*@[u32] #[hoist(Self = u32, Name = sqrt_u32)] @*/
/*@
    ensures // C12: the square root truncated toward zero
        (ret as int) * (ret as int) <= *self as int, (*self as int) < (ret as int + 1) * (ret as int + 1),
@*/
{
    if *self == 0 {
        return 0;
    }

    // normalize the input and call the normalized subroutine
    /*@ let ghost x = *self as int; @*/
    /*@[u64] let ghost z = br_lz64(*self) as nat; let ghost w = 64nat;
        proof { lemma_br_lz64(*self); lemma_br_pow2_64(); lemma_br_sqrt_norm(x, z, (br_lz64(*self) & !1u32) as nat, w);
                lemma_br_shl64(*self, br_lz64(*self) & !1u32); } @*/
    /*@[u32] let ghost z = br_lz32(*self) as nat; let ghost w = 32nat;
        proof { lemma_br_lz32(*self); vstd::arithmetic::power2::lemma2_to64(); lemma_br_sqrt_norm(x, z, (br_lz32(*self) & !1u32) as nat, w);
                lemma_br_shl32(*self, br_lz32(*self) & !1u32); } @*/
    /*@[u128] let ghost z = br_lz128(*self) as nat; let ghost w = 128nat;
        proof { lemma_br_lz128(*self); lemma_br_pow2_64(); lemma_br_sqrt_norm(x, z, (br_lz128(*self) & !1u32) as nat, w);
                lemma_br_shl128(*self, br_lz128(*self) & !1u32); } @*/
    let shift = self.leading_zeros() & !1; // make sure shift is divisible by 2
    let (root, _) = (self << shift).normalized_sqrt_rem();
    /*@ let ghost rs = root as int; let ghost k = (shift / 2) as nat;
        proof {
            lemma_br_sqrt_rem_iff(x * pow2(shift as nat), rs, (x * pow2(shift as nat)) - rs * rs);
            lemma_br_sqrt_unshift(x, x * pow2(shift as nat), k, rs, rs / (pow2(k) as int));
        } @*/
    /*@[u64] proof { lemma_br_shr32(root, shift / 2); } @*/
    /*@[u128] proof { lemma_br_shr64(root, shift / 2); } @*/
        /*@[u32] proof { lemma_br_shr16(root, shift / 2); } @*/
    root >> (shift / 2)
}
