//@ item: base/src/ring/root.rs :: macro fix_sqrt_error#0 :: @arm
{
    /*@ proof { lemma_br_ipow2($s as int); lemma_br_sq_mono($s as int, 0); } @*/
    let mut e = $n - ($s as $t).pow(2);
    let mut elim = 2 * $s as $t + 1;
    while e >= elim
    /*@
        invariant (e as int) + ($s as int) * ($s as int) == $n as int, elim as int == 2 * ($s as int) + 1,
        decreases e
    @*/
    {
        /*@ proof {
            lemma_br_fix_step($n as int, $s as int, e as int);
            // (s+1)^2 <= n < 2^BITS: the half-width root cannot overflow
            lemma_br_root_lt($s as int + 1, $n as int, br_half_cap($n as int));
        } @*/
        $s += 1;
        e -= elim;
        elim += 2;
    }
    e
}
