//@ item: base/src/ring/root.rs :: macro impl_rootrem_using_normalized#0 :: impl CubicRootRem for $t :: cbrt_rem
fn cbrt_rem(&self) -> ($half, $t)
/*@[u64] #[hoist(Self = u64, Name = cbrt_rem_u64)] @*/
/*@[u128] #[hoist(Self = u128, Name = cbrt_rem_u128)] @*/
/*@[u32] #[hoist(Self = u32, Name = cbrt_rem_u32)] @*/
/*@
    ensures // C12: (c, r) with c the cube root truncated toward zero and r == value - c^3:  c^3 + r == n, r <= 3c^2 + 3c  (<==> c^3 <= n < (c+1)^3)
        br_cube(ret.0 as int) + ret.1 as int == *self as int, ret.1 as int <= 3 * ((ret.0 as int) * (ret.0 as int)) + 3 * (ret.0 as int),
@*/
{
    if *self == 0 {
        /*@ proof { assert(br_cube(0) + 0 == 0 && 3 * (0int * 0int) + 3 * 0 == 0) by (compute); } @*/
        return (0, 0);
    }

    // normalize the input and call the normalized subroutine
    /*@ let ghost x = *self as int; @*/
    /*@[u64] let ghost z = br_lz64(*self) as nat; let ghost w = 64nat;
        proof { lemma_br_lz64(*self); lemma_br_pow2_64(); vstd::arithmetic::power2::lemma_pow2_adds(32, 29); vstd::arithmetic::power2::lemma2_to64();
                lemma_br_cbrt_norm(x, z, (z - z % 3) as nat, w); lemma_br_shl64(*self, (z - z % 3) as u32); } @*/
    /*@[u128] let ghost z = br_lz128(*self) as nat; let ghost w = 128nat;
        proof { lemma_br_lz128(*self); lemma_br_pow2_64(); vstd::arithmetic::power2::lemma_pow2_adds(64, 61);
                vstd::arithmetic::power2::lemma_pow2_adds(32, 29); vstd::arithmetic::power2::lemma2_to64();
                lemma_br_cbrt_norm(x, z, (z - z % 3) as nat, w); lemma_br_shl128(*self, (z - z % 3) as u32); } @*/
    /*@[u32] let ghost z = br_lz32(*self) as nat; let ghost w = 32nat;
        proof { lemma_br_lz32(*self); vstd::arithmetic::power2::lemma2_to64();
                lemma_br_cbrt_norm(x, z, (z - z % 3) as nat, w); lemma_br_shl32(*self, (z - z % 3) as u32); } @*/
    let mut shift = self.leading_zeros();
    shift -= shift % 3; // make sure shift is divisible by 3
    let (mut root, mut rem) = (self << shift).normalized_cbrt_rem();
    /*@ let ghost rs = root as int; let ghost k = (shift / 3) as nat; @*/
    if shift != 0 {
        /*@[u64] proof { lemma_br_shr32(root, shift / 3); } @*/
        /*@[u128] proof { lemma_br_shr64(root, shift / 3); } @*/
        /*@[u32] proof { lemma_br_shr16(root, shift / 3); } @*/
        root >>= shift / 3;
        /*@ proof {
            lemma_br_cbrt_rem_iff(x * pow2(shift as nat), rs, rem as int);
            lemma_br_cbrt_unshift(x, x * pow2(shift as nat), k, rs, root as int);
            lemma_br_ipow2(root as int);
        } @*/
        rem = self - (root as $t).pow(3);
        /*@ proof { lemma_br_cbrt_rem_iff(x, root as int, rem as int); } @*/
    }
    /*@ proof { if shift == 0 { assert(x * pow2(0) == x); } } @*/
    (root, rem)
}
