//@ item: base/src/ring/root.rs :: impl NormalizedRootRem for u128 :: normalized_sqrt_rem
fn normalized_sqrt_rem(self) -> (u64, u128)
/*@ #[hoist(Self = u128, Name = normalized_sqrt_rem_u128)] @*/
/*@
    requires self >= 0x4000_0000_0000_0000_0000_0000_0000_0000,          // "normalized": highest or second highest bit set
    ensures // C12: root truncated toward zero and value - root^2
        (ret.0 as int) * (ret.0 as int) + ret.1 as int == self as int, ret.1 as int <= 2 * (ret.0 as int),
@*/
{
    /*@ proof { lemma_br_norm_lz128(self); assert(dd_lz(self) <= 1); } // the debug assertion below (drop_asserts=0: exec call) @*/
    debug_assert!(self.leading_zeros() <= 1);

    // use the "Karatsuba Square Root" algorithm
    // (see the implementation in dashu_int, or https://hal.inria.fr/inria-00072854/en/)

    // step1: calculate sqrt on high parts
    /*@ let ghost n = self as int; let ghost p = 0x1_0000_0000int; let ghost ph = 0x8000_0000int;
        proof { lemma_br_kara_split(self, self >> 64u32, self & 0xffff_ffff_ffff_ffffu128); } @*/
    let (a, b) = (self >> u64::BITS, self & u64::MAX as u128);
    let (a, b) = (a as u64, b as u64);
    let (s1, r1) = a.normalized_sqrt_rem();
    /*@ proof {
        assert(p * p == 0x1_0000_0000_0000_0000) by (nonlinear_arith) requires p == 0x1_0000_0000int;
        assert(ph * ph == 0x4000_0000_0000_0000 && (2 * ph) * (2 * ph) == 0x1_0000_0000_0000_0000) by (nonlinear_arith) requires ph == 0x8000_0000int;
        lemma_br_kara_s1_range(a as int, s1 as int, r1 as int, ph);
    } @*/

    // step2: estimate the result with low parts
    // note that r1 <= 2*s1 < 2^(KBITS + 1)
    // here r0 = (r1*B + b) / 2
    const KBITS: u32 = u64::BITS / 2;
    /*@ proof { lemma_br_kara_r0(r1, b, r1 << 31u32 | b >> 33u32); } @*/
    let r0 = r1 << (KBITS - 1) | b >> (KBITS + 1);
    let (mut q, mut u) = r0.div_rem(s1 as u64);
    /*@ let ghost bh = (b as int) / 0x2_0000_0000; let ghost beta = ((b as int) / p) % 2; let ghost b0 = (b as int) % p;
        let ghost q0 = q as int; let ghost u0 = u as int;
        proof {
            vstd::arithmetic::div_mod::lemma_fundamental_div_mod(r0 as int, s1 as int);
            vstd::arithmetic::div_mod::lemma_mod_bound(r0 as int, s1 as int);
            vstd::arithmetic::div_mod::lemma_div_pos_is_pos(r0 as int, s1 as int);
            assert((s1 as int) * q0 == q0 * (s1 as int)) by (nonlinear_arith);
            lemma_br_kara_q(r1 as int, r0 as int, bh, s1 as int, q0, u0, p, ph);
            lemma_br_kara_q_hi(q);
        } @*/
    if q >> KBITS > 0 {
        // if q >= B (then q = B), reduce the overestimate
        q -= 1;
        u += s1 as u64;
    }
    /*@ let ghost adjusted = q0 == p;
        proof {
            // r0 == q * s1 + u still holds
            assert((q as int) * (s1 as int) + u as int == r0 as int) by (nonlinear_arith)
                requires q0 * (s1 as int) + u0 == r0 as int, (q as int == q0 && u as int == u0) || (q as int == q0 - 1 && u as int == u0 + s1 as int);
            lemma_br_kara_words(s1 as u64, q, u, b, (s1 as u64) << 32u32 | q, (u << 33u32) | (b & sub((1u64 << 33u32), 1)), sub((1u64 << 33u32), 1));
            assert((1u64 << 33u32) == 0x2_0000_0000u64) by (bit_vector);
            assert(KBITS == 32);
        } @*/

    let mut s = (s1 as u64) << KBITS | q;
    let r = (u << (KBITS + 1)) | (b & ((1 << (KBITS + 1)) - 1));
    /*@ let ghost rr = (2 * (u as int) + beta) * p + b0 - (q as int) * (q as int);      // the tentative remainder n - s^2
        proof {
            assert((q as int) * (q as int) <= 0xffff_ffff * 0xffff_ffff) by (nonlinear_arith) requires 0 <= q as int <= 0xffff_ffff;
            assert(n == (a as int) * (p * p) + (2 * bh + beta) * p + b0);
            assert((r1 as int) * p + (2 * bh + beta) == 2 * (r0 as int) + beta) by (nonlinear_arith)
                requires r0 as int == (r1 as int) * ph + bh, p == 2 * ph;
            lemma_br_kara_identity(n, a as int, 2 * bh + beta, b0, s1 as int, r1 as int, r0 as int, beta, q as int, u as int, p, s as int);
            lemma_br_kara_bounds(s1 as int, q as int, u as int, beta, b0, p, ph, s as int, adjusted, u0);
            assert((2 * (u as int) + beta) * p == (u as int) * 0x2_0000_0000 + beta * p) by (nonlinear_arith) requires p == 0x1_0000_0000int;
        } @*/
    let q2 = q * q;
    let mut c = (u >> (KBITS - 1)) as i8 - (r < q2) as i8;
    let mut r = r.wrapping_sub(q2);
    /*@ proof { assert((c as int) * 0x1_0000_0000_0000_0000 + r as int == rr); } @*/

    // step3: fix the estimation error if necessary
    if c < 0 {
        /*@ proof { lemma_br_kara_correct(s as int, rr); } @*/
        let (new_r, c1) = r.overflowing_add(s);
        s -= 1;
        let (new_r, c2) = new_r.overflowing_add(s);
        r = new_r;
        c += c1 as i8 + c2 as i8;
    }
    /*@ proof {
        // n == s^2 + R, 0 <= R <= 2 s < 2^65, R == c * 2^64 + r with 0 <= r < 2^64
        assert(n == (s as int) * (s as int) + ((c as int) * 0x1_0000_0000_0000_0000 + r as int));
        assert(0 <= (c as int) * 0x1_0000_0000_0000_0000 + r as int <= 2 * (s as int));
        assert(c == 0 || c == 1);
        lemma_br_kara_final(c as u128, r);
    } @*/
    (s, (c as u128) << u64::BITS | r as u128)
}
