//@ item: base/src/ring/root.rs :: impl NormalizedRootRem for u128 :: normalized_cbrt_rem
fn normalized_cbrt_rem(self) -> (u64, u128)
/*@ #[hoist(Self = u128, Name = normalized_cbrt_rem_u128)] @*/
/*@
    requires self >= 0x2000_0000_0000_0000_0000_0000_0000_0000,          // "normalized": one of the highest three bits set
    ensures // C12: cube root truncated toward zero and value - root^3
        br_cube(ret.0 as int) + ret.1 as int == self as int, ret.1 as int <= 3 * ((ret.0 as int) * (ret.0 as int)) + 3 * (ret.0 as int),
@*/
{
    /*@ let ghost n = self as int; let ghost ah = (self as int) / 0x4_0000_0000_0000_0000;
        proof { lemma_br_cb128_bits(self); assert(dd_lz(self) <= 2); } // the debug assertion below (drop_asserts=0: exec call) @*/
    debug_assert!(self.leading_zeros() <= 2);

    // step1: calculate cbrt on high 62 bits
    let (c1, r1) = if self.leading_zeros() > 0 {
        // actually on high 65 bits
        let a = (self >> 63) as u64;
        let (mut c, _) = a.normalized_cbrt_rem();
        /*@ proof {
            assert(exists|rm: u64| #[trigger] a.ncbrt_post((c, rm)));      // the discarded remainder
            let rm = choose|rm: u64| #[trigger] a.ncbrt_post((c, rm));
            lemma_br_cbrt_rem_iff(a as int, c as int, rm as int);
            lemma_br_cbrt_half(a as int, c as int);
            assert((c >> 1) == c / 2) by (bit_vector);
            assert((a >> 3u32) == a / 8 && (a >> 3) == a / 8) by (bit_vector);
            assert((a as int) / 8 == ah);
        } @*/
        c >>= 1;
        /*@ proof { lemma_br_ipow2(c as int); lemma_br_cube_mono(c as int, c as int); lemma_br_cbrt_rem_iff(ah, c as int, ah - br_cube(c as int)); } @*/
        (c, (a >> 3) - (c as u64).pow(3))
    } else {
        let a = (self >> 66) as u64;
        a.normalized_cbrt_rem()
    };
    /*@ proof {
        lemma_br_cbrt_rem_iff(ah, c1 as int, r1 as int);
        lemma_br_cb128_c1(ah, c1 as int);
        lemma_br_ipow2(c1 as int);
        let ci = c1 as int;
        assert(ci * ci < 0x20_0000 * 0x20_0000 && ci * ci >= 1) by (nonlinear_arith) requires 1 <= ci < 0x20_0000;
    } @*/

    // step2: estimate the root with low part
    const KBITS: u32 = 22;
    /*@ let ghost b2 = (self >> 44u32) & 0x3f_ffffu128; let ghost low = self & 0xfff_ffff_ffffu128;
        proof { lemma_br_cb128_words(r1, b2, c1, 0, 0, (3 * (c1 as int)) as u128); assert(KBITS == 22); } @*/
    let r0 = ((r1 as u128) << KBITS) | (self >> (2 * KBITS) & ((1 << KBITS) - 1));
    let (q, u) = r0.div_rem(3 * (c1 as u128).pow(2));
    /*@ proof {
        lemma_br_cb128_q(c1 as int, r1 as int, b2 as int, r0 as int, q as int, u as int);
        lemma_br_cb128_words(r1, b2, c1, u, low, (3 * (c1 as int)) as u128);
    } @*/
    let mut c = ((c1 as u64) << KBITS) + (q as u64); // here q might be larger than B

    // r = u*B^2 + b1*B + b0 - 3*c1*q^2*B - q^3
    let t1 = (u << (2 * KBITS)) | (self & ((1 << (2 * KBITS)) - 1));
    /*@ proof {
        lemma_br_ipow2(q as int);
        let qi = q as int; let ci = c1 as int;
        assert(qi * qi <= 0x40_0008 * 0x40_0008 && qi * qi >= 0) by (nonlinear_arith) requires 0 <= qi <= 0x40_0008;
        assert((3 * ci * 0x40_0000 + qi) * (qi * qi) <= (3 * 0x20_0000 * 0x40_0000 + 0x40_0008) * (0x40_0008 * 0x40_0008)) by (nonlinear_arith)
            requires 0 <= ci < 0x20_0000, 0 <= qi <= 0x40_0008, 0 <= qi * qi <= 0x40_0008 * 0x40_0008;
        lemma_br_cb128_identity(n, ah, b2 as int, low as int, ci, r1 as int, qi, u as int, c as int);
        let sh3 = ((3 * (c1 as u128)) as u128) << KBITS;
        assert(sh3 as int == 3 * ci * 0x40_0000);
        assert(br_ipow(qi, 2) == qi * qi);
        assert((sh3 as int + qi) * (qi * qi) <= (3 * 0x20_0000 * 0x40_0000 + 0x40_0008) * (0x40_0008 * 0x40_0008));
        assert((3 * 0x20_0000 * 0x40_0000 + 0x40_0008) * (0x40_0008 * 0x40_0008) < 0x1000_0000_0000_0000_0000_0000_0000) by (compute);
        assert(t1 as int == (u as int) * 0x1000_0000_0000 + low as int);
        assert((u as int) * 0x1000_0000_0000 < 0x3000_0000_0000 * 0x1000_0000_0000) by (nonlinear_arith) requires 0 <= (u as int), (u as int) < 0x3000_0000_0000;
    } @*/
    let t2 = (((3 * (c1 as u128)) << KBITS) + q) * q.pow(2);
    let mut r = t1 as i128 - t2 as i128;

    // step3: adjustment, finishes in at most 4 steps
    while r < 0
    /*@
        invariant r as int == n - br_cube(c as int), n < br_cube(c as int + 1), n == self as int, (c as int) < 0x1_0000_0000_0000,
            -0x1000_0000_0000_0000_0000_0000_0000 < (r as int), (r as int) <= n,
        decreases c
    @*/
    {
        /*@ proof {
            lemma_br_cb128_adjust(n, c as int, r as int);
            let ci = c as int;
            assert(0 <= (ci - 1) * ci && 3 * (ci - 1) * ci == 3 * ((ci - 1) * ci) && (ci - 1) * ci < 0x1_0000_0000_0000 * 0x1_0000_0000_0000) by (nonlinear_arith)
                requires 1 <= ci < 0x1_0000_0000_0000;
            lemma_br_cube_mono(ci - 1, ci - 1);
        } @*/
        r += 3 * (c as i128 - 1) * c as i128 + 1;
        c -= 1;
    }
    /*@ proof { lemma_br_cbrt_rem_iff(n, c as int, r as int); } @*/
    (c, r as u128)
}
