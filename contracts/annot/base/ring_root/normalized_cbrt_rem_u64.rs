//@ item: base/src/ring/root.rs :: impl NormalizedRootRem for u64 :: normalized_cbrt_rem
fn normalized_cbrt_rem(self) -> (u32, u64)
/*@ #[hoist(Self = u64, Name = normalized_cbrt_rem_u64)] @*/
/*@
    requires self >= 0x2000_0000_0000_0000,          // "normalized": one of the highest three bits set (the debug assertion)
    ensures // C12: cube root truncated toward zero and value - root^3
        br_cube(ret.0 as int) + ret.1 as int == self as int, ret.1 as int <= 3 * ((ret.0 as int) * (ret.0 as int)) + 3 * (ret.0 as int),
@*/
{
    /*@ let ghost h = (self as int) / 0x1_0000_0000;
        proof {
            lemma_br_cb64_bits(self);
            assert(vstd::std_specs::bits::u64_leading_zeros(self) <= 2);   // the debug assertion below (drop_asserts=0: exec call)
            axiom_br_cb64_estimate(h);
        } @*/
    debug_assert!(self.leading_zeros() <= 2);

    let adjust = self.leading_zeros() == 0;
    let n32 = (self >> (32 + 3 * adjust as u8)) as u32;
    /*@ proof {
        assert(adjust == br_cb64_adj(h));
        assert(n32 as int == br_cb64_n32(h));
        lemma_br_cb_shr_small(0, n32);
        lemma_br_cb_or100(RCBRT_TAB[((n32 >> 25u32) as int) - 8], 0x100 | RCBRT_TAB[((n32 >> 25u32) as int) - 8] as u32);
        // the real table equals the pinned one the estimate axiom speaks about (an obligation of THIS function)
        assert(RCBRT_TAB[(n32 >> 25u32) as int - 8] as int == br_rcbrt_tab()[(n32 >> 25u32) as int - 8]);
    } @*/
    let r = 0x100 | RCBRT_TAB[(n32 >> 25) as usize - 8] as u32; // 9 bits
    /*@ proof {
        assert(r as int == br_cb64_r0(h));
        let r0 = r as int;
        assert(r0 * r0 * r0 < 0x800_0000) by (nonlinear_arith) requires 0 <= r0 < 512;
        assert(r0 * r0 >= 0 && r0 * r0 < 0x4_0000) by (nonlinear_arith) requires 0 <= r0 < 512;
    } @*/

    let t = (4 << 23) - wmul32_hi(n32, r * r * r);
    /*@ proof { assert(t as int == 0x200_0000 - br_cb64_w1(h)); } @*/
    let r = r * (t / 3); // 32 bits
    /*@ proof { assert(r as int == br_cb64_r1(h)); } @*/

    let t = (4 << 28) - wmul32_hi(r, wmul32_hi(r, wmul32_hi(r, n32)));
    /*@ proof { assert(t as int == 0x4000_0000 - br_cb64_w3(h)); } @*/
    let mut r = wmul32_hi(r, t) / 3; // 28 bits
    /*@ proof { assert(r as int == br_cb64_r2(h)); lemma_br_cb_shr_small(r, n32); } @*/
    r >>= adjust as u8; // recover the adjustment if needed

    let r = r - 1; // to make sure c is an underestimate
    /*@ proof { assert(r as int == br_cb64_r4(h)); } @*/
    let mut c = wmul32_hi(r, wmul32_hi(r, (self >> 32) as u32));
    /*@ proof {
        assert(c as int == br_cb64_c(h));
        assert(br_cube(c as int) <= self as int);
    } @*/

    let e = fix_cbrt_error!(u64, self, c);
    /*@ proof { lemma_br_cbrt_rem_iff(self as int, c as int, e as int); lemma_br_cube_succ(c as int); } @*/
    (c, e)
}
