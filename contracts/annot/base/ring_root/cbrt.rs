//@ item: base/src/math/root.rs :: macro impl_root_using_rootrem#0 :: impl CubicRoot for $t :: cbrt
fn cbrt(&self) -> $half
/*@[u64] #[hoist(Self = u64, Name = cbrt_u64)] @*/
/*@[u128] #[hoist(Self = u128, Name = cbrt_u128)] @*/
/*@[u32] #[hoist(Self = u32, Name = cbrt_u32)] @*/
/*@
    ensures // C12: the cube root truncated toward zero
        br_cube(ret as int) <= *self as int, (*self as int) < br_cube(ret as int + 1),
@*/
{
    if *self == 0 {
        /*@ proof { assert(br_cube(0) == 0 && br_cube(1) == 1) by (compute); } @*/
        return 0;
    }

    // normalize the input and call the normalized subroutine
    /*@ let ghost x = *self as int; @*/
    /*@[u64] let ghost z = br_lz64(*self) as nat; let ghost w = 64nat;
        proof { lemma_br_lz64(*self); lemma_br_pow2_64(); vstd::arithmetic::power2::lemma_pow2_adds(32, 29); vstd::arithmetic::power2::lemma2_to64();
                lemma_br_cbrt_norm(x, z, (z - z % 3) as nat, w); lemma_br_shl64(*self, (z - z % 3) as u32); } @*/
    /*@[u128] let ghost z = br_lz128(*self) as nat; let ghost w = 128nat;
        proof { lemma_br_lz128(*self); lemma_br_pow2_64(); vstd::arithmetic::power2::lemma_pow2_adds(64, 61);
                vstd::arithmetic::power2::lemma_pow2_adds(32, 29); vstd::arithmetic::power2::lemma2_to64();
                lemma_br_cbrt_norm(x, z, (z - z % 3) as nat, w); lemma_br_shl128(*self, (z - z % 3) as u32); } @*/
    /*@[u32] let ghost z = br_lz32(*self) as nat; let ghost w = 32nat;
        proof { lemma_br_lz32(*self); vstd::arithmetic::power2::lemma2_to64();
                lemma_br_cbrt_norm(x, z, (z - z % 3) as nat, w); lemma_br_shl32(*self, (z - z % 3) as u32); } @*/
    let mut shift = self.leading_zeros();
    shift -= shift % 3; // make sure shift is divisible by 3
    let (root, _) = (self << shift).normalized_cbrt_rem();
    /*@ let ghost rs = root as int; let ghost k = (shift / 3) as nat;
        proof {
            lemma_br_cbrt_rem_iff(x * pow2(shift as nat), rs, (x * pow2(shift as nat)) - br_cube(rs));
            lemma_br_cbrt_unshift(x, x * pow2(shift as nat), k, rs, rs / (pow2(k) as int));
        } @*/
    /*@[u64] proof { lemma_br_shr32(root, shift / 3); } @*/
    /*@[u128] proof { lemma_br_shr64(root, shift / 3); } @*/
    /*@[u32] proof { lemma_br_shr16(root, shift / 3); } @*/
    root >> (shift / 3)
}
