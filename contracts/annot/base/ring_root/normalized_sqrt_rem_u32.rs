//@ item: base/src/ring/root.rs :: impl NormalizedRootRem for u32 :: normalized_sqrt_rem
fn normalized_sqrt_rem(self) -> (u16, u32)
/*@ #[hoist(Self = u32, Name = normalized_sqrt_rem_u32)] @*/
/*@
    requires self >= 0x4000_0000,          // "normalized": highest or second highest bit set (the debug assertion)
    ensures // C12: root truncated toward zero and value - root^2
        (ret.0 as int) * (ret.0 as int) + ret.1 as int == self as int, ret.1 as int <= 2 * (ret.0 as int),
@*/
{
    /*@ proof { lemma_br_norm_lz32(self); assert(vstd::std_specs::bits::u32_leading_zeros(self) <= 1); } // the debug assertion below (drop_asserts=0: exec call) @*/
    debug_assert!(self.leading_zeros() <= 1);

    let n16 = (self >> 16) as u16;
    /*@ let ghost m = self as int;
        proof {
            lemma_br_sq32_bits(self, n16, RSQRT_TAB[((n16 >> 9u32) as int) - 32], 0x100 | RSQRT_TAB[((n16 >> 9u32) as int) - 32] as u32);
            // the real table equals the pinned one the estimate axiom speaks about (an obligation of THIS function)
            assert(RSQRT_TAB[(n16 >> 9u32) as int - 32] as int == br_rsqrt_tab()[(n16 >> 9u32) as int - 32]);
            axiom_br_sq32_estimate(m);
        } @*/
    let r = 0x100 | RSQRT_TAB[(n16 >> 9) as usize - 32] as u32; // 9 bits
    /*@ proof {
        assert(r as int == br_sq32_r0(m));
        let r0 = r as int;
        assert(r0 * r0 * r0 < 0x800_0000) by (nonlinear_arith) requires 0 <= r0 < 512;
        assert(r0 * r0 >= 0 && r0 * r0 < 0x4_0000) by (nonlinear_arith) requires 0 <= r0 < 512;
        assert((m * (r0 * r0 * r0)) / 0x1_0000_0000 < 0x800_0000) by (nonlinear_arith) requires 0 <= m < 0x1_0000_0000, 0 <= r0 * r0 * r0 < 0x800_0000;
        assert((m * (r0 * r0 * r0)) / 0x1_0000_0000 >= 0) by (nonlinear_arith) requires 0 <= m, 0 <= r0 * r0 * r0;
        lemma_br_sq32_shifts((3 * r as u16) as u16, wmul32_hi_spec(self, (r * r * r) as u32), 0, 0);
        assert(3 * r0 * 32 == (3 * r0) * 32);
    } @*/
    let r = ((3 * r as u16) << 5) - (wmul32_hi(self, r * r * r) >> 11) as u16; // 15 bits
    /*@ proof { assert(r as int == br_sq32_r1(m)); lemma_br_sq32_shifts(0, 0, r, 0); } @*/

    let r = r << 1; // normalize to 16 bits, now r estimates 2^31 / √n
    /*@ proof { assert(r as int == br_sq32_r(m)); } @*/
    let mut s = wmul16_hi(r, n16).saturating_mul(2); // overflowing can happen
    /*@ proof { assert(s as int == br_sq32_s1(m)); } @*/
    s -= 4; // to make sure s is an underestimate
    /*@ proof {
        assert(s as int == br_sq32_s0(m));
        lemma_br_sq32_shifts(0, 0, 0, (self - (s as u32) * (s as u32)) as u32);
    } @*/

    let e = self - (s as u32) * (s as u32);
    s += wmul16_hi((e >> 16) as u16, r);
    /*@ proof { assert(s as int == br_sq32_s(m)); } @*/

    let e = fix_sqrt_error!(u32, self, s);
    (s, e)
}
