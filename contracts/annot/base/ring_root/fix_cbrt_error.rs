//@ item: base/src/ring/root.rs :: macro fix_cbrt_error#0 :: @arm
{
    /*@ proof { lemma_br_cfix_init($n as int, $c as int); } @*/
    let cc = ($c as $t).pow(2);
    let mut e = $n - cc * ($c as $t);
    let mut elim = 3 * (cc + $c as $t) + 1;
    while e >= elim
    /*@
        invariant (e as int) + br_cube($c as int) == $n as int, elim as int == 3 * (($c as int) * ($c as int)) + 3 * ($c as int) + 1,
            ($c as int) < br_cbrt_cap($n as int),
        decreases e
    @*/
    {
        /*@ proof { lemma_br_cfix_step($n as int, $c as int, e as int, elim as int); } @*/
        $c += 1;
        e -= elim;
        /*@ proof {
            // 3 (c+1)^2 + 3 (c+1) + 1 <= 3 cap^2 + .. fits the operand type
            let ci = $c as int; let cap = br_cbrt_cap($n as int);
            assert(ci * ci < cap * cap) by (nonlinear_arith) requires 0 <= ci < cap;
        } @*/
        elim += 6 * ($c as $t);
    }
    e
}
