//@ item: base/src/ring/root.rs :: wmul16_hi
fn wmul16_hi(a: u16, b: u16) -> u16
/*@
    ensures ret as int == ((a as int) * (b as int)) / 0x1_0000,
@*/
{
    /*@ proof {
        assert((a as int) * (b as int) <= 0xffff * 0xffff) by (nonlinear_arith) requires 0 <= a as int <= 0xffff, 0 <= b as int <= 0xffff;
        let x = ((a as u32) * (b as u32)) as u32;
        assert((x >> 16u32) == x / 0x1_0000 && (x >> 16u32) <= 0xffff) by (bit_vector);
    } @*/
    (((a as u32) * (b as u32)) >> 16) as u16
}
