//@ item: base/src/ring/root.rs :: impl NormalizedRootRem for u64 :: normalized_sqrt_rem
fn normalized_sqrt_rem(self) -> (u32, u64)
/*@ #[hoist(Self = u64, Name = normalized_sqrt_rem_u64)] @*/
/*@
    requires self >= 0x4000_0000_0000_0000,          // "normalized": highest or second highest bit set (the debug assertion)
    ensures // C12: root truncated toward zero and value - root^2
        (ret.0 as int) * (ret.0 as int) + ret.1 as int == self as int, ret.1 as int <= 2 * (ret.0 as int),
@*/
{
    /*@ proof { lemma_br_norm_lz64(self); assert(vstd::std_specs::bits::u64_leading_zeros(self) <= 1); } // the debug assertion below (rule D3 cannot state an exec call: drop_asserts=0) @*/
    debug_assert!(self.leading_zeros() <= 1);

    let n32 = (self >> 32) as u32;
    /*@ let ghost m = n32 as int; let ghost lo = (self as int) % 0x1_0000_0000;
        proof {
            lemma_br_sq64_bits(self, n32, RSQRT_TAB[((n32 >> 25u32) as int) - 32], 0x100 | RSQRT_TAB[((n32 >> 25u32) as int) - 32] as u32);
            // the real table equals the pinned one the estimate axiom speaks about (an obligation of THIS function: a changed table is a violation)
            assert(RSQRT_TAB[(n32 >> 25u32) as int - 32] as int == br_rsqrt_tab()[(n32 >> 25u32) as int - 32]);
            axiom_br_sq64_estimate(m);
        } @*/
    let r = 0x100 | RSQRT_TAB[(n32 >> 25) as usize - 32] as u32; // 9 bits
    /*@ proof {
        assert(r as int == br_sq64_r0(m));
        let r0 = r as int;
        assert(r0 * r0 * r0 < 0x800_0000) by (nonlinear_arith) requires 0 <= r0 < 512;
        assert(r0 * r0 >= 0 && r0 * r0 < 0x4_0000) by (nonlinear_arith) requires 0 <= r0 < 512;
        lemma_br_sq64_shifts((3 * r) as u32, (r * r * r) as u32, 0, 0);
        assert(3 * r0 * 0x20_0000 == (3 * r0) * 0x20_0000);
        assert(r0 * r0 * r0 * 32 == (r0 * r0 * r0) * 32);
    } @*/
    let r = ((3 * r) << 21) - wmul32_hi(n32, (r * r * r) << 5); // 31 bits
    /*@ proof { assert(r as int == br_sq64_r1(m)); assert((3u32 << 28) == 0x3000_0000u32) by (bit_vector); } @*/

    let t = (3 << 28) - wmul32_hi(r, wmul32_hi(r, n32)); // 29 bits
    /*@ proof { assert(t as int == br_sq64_t(m)); } @*/
    let r = wmul32_hi(r, t); // 28 bits
    /*@ proof { assert(r as int == br_sq64_r2(m)); lemma_br_sq64_shifts(0, 0, r, 0); } @*/

    let r = r << 4; // normalize to 32 bits, now r estimates 2^63 / √n
    /*@ proof { assert(r as int == br_sq64_r(m)); lemma_br_sq64_shifts(0, 0, 0, wmul32_hi_spec(r, n32)); } @*/
    let mut s = wmul32_hi(r, n32) << 1;
    s -= 10; // to make sure s is an underestimate
    /*@ let ghost s0 = s as int;
        proof {
            assert(s0 == br_sq64_s0(m));
            lemma_br_sq64_newton(m, lo, s0, r as int, br_sq64_e0(m), br_sq64_e0(m) / 0x1_0000_0000, br_sq64_e0(m) % 0x1_0000_0000,
                br_sq64_sa(m), br_sq64_sb(m));
            lemma_br_shr32_u64((self - (s as u64) * (s as u64)) as u64);
        } @*/

    let e = self - (s as u64) * (s as u64);
    s += wmul32_hi((e >> 32) as u32, r);

    let e = fix_sqrt_error!(u64, self, s);
    (s, e)
}
